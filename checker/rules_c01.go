package main

// C01 — the parser accepts exactly spec-conforming files (rejecting half's plumbing and the
// lexical gate), and C16's lexical / construction rules.

import (
	"fmt"
	"go/constant"
	"go/token"
	"go/types"
	"strings"

	"golang.org/x/tools/go/ssa"
)

func init() {
	register(&propSpec{
		id:    "C01",
		level: "other",
		explain: "Decides the rejecting half's plumbing and the lexical gate: (P01-errchecked) inside the record parser every fallible klog constructor applied to text of the block has its error tested (constant-argument calls are exempt); (P01-errflow) every error object created in the parser flows, through closure results and nil tests, into the error list the parser returns; " +
			"(P01-norecord) a record is returned only when that list is empty, and both engines return records only when no block had errors; (P01-placeholder) in an open range any placeholder character other than '?' is rejected on every path; (P01-guards) the headline guard for left-over text rejects on any remaining character; (P01-kinds) every error kind defined for the parser is raised somewhere in it; " +
			"(P01-lex) the date, time and duration patterns are language-equivalent to the specification's lexical shapes and include all spec-valid literals, their constructors fail on every path where the pattern does not match, and the summary-line patterns equal 'starts with tab or Zs' / 'only tab or Zs'. " +
			"Not covered: block splitting, indentation uniformity, section order and the values extracted (12-hour conversion, shifts, 24:00 folding, file order of entries) — these need an oracle evaluated on inputs.",
		rules:   []ruleFn{ruleP01ErrChecked, ruleP01ErrFlow, ruleP01NoRecord, ruleP01Placeholder, ruleP01Guards, ruleP01Kinds, ruleP01Lex, ruleP01GroupGuards, ruleP01SummaryEmpty, ruleP01SummaryValidated, ruleP01Delims, ruleP08LoopExit},
		trusted: []string{"reference languages transcribed from Specification.md: date \\d{4}[-/]\\d{2}[-/]\\d{2}; time <?\\d{1,2}:\\d{2}(am|pm)?>?; duration [-+]?(\\d+h)?(\\d+m)?; blank = tab or Unicode Zs", "Go's regexp package implements the regexp/syntax semantics the comparison uses"},
	})
	register(&propSpec{
		id:    "C16",
		level: "other",
		explain: "Decided on source constants and the SSA program: (P16-lex = P01-lex) the literal shapes accepted for dates, times and durations are exactly the specification's; (P16-order) a range is rejected exactly when its end is not after-or-equal its start, and time comparison reads both midnight offsets (day shift included) with >= / ==; " +
			"(P16-closed) date, time, duration, range and open-range values are only constructed inside their validating constructors, after the validity test; (P16-offsets = P02-range) midnight offsets are 60h+m-1440 / 60h+m / 60h+m+1440 by shift and a range lasts end minus start; (P16-ampm) the 12-hour tables of reading and printing are mutually inverse on the hour classes {0, 1-11, 12, 13-23}; (P16-plus) Time.Plus builds its result from the shifted offset's quotient and remainder by 60. " +
			"Not covered: Gregorian validity (civil), ToString formats in general, exhaustive value round trips.",
		rules:   []ruleFn{ruleP01Lex, ruleP01GroupGuards, ruleP16DateStrict, ruleP16DateSeparators, ruleP16DurationParts, ruleP16Order, ruleP16Closed, ruleP02Range, ruleP16AmPm, ruleP16Plus, ruleP16Fold},
		trusted: []string{"cloud.google.com/go/civil validates dates and times"},
	})
}

func parseFamily(p *Prog) (*ssa.Function, []*ssa.Function) {
	parse := p.fn("klog/parser", "parse")
	if parse == nil {
		return nil, nil
	}
	return parse, withAnons(parse)
}

func ruleP01ErrChecked(p *Prog, r *Report) {
	const rule = "P01-errchecked"
	parse, fam := parseFamily(p)
	if !r.anchorFn(rule, parse, "parser.parse") {
		return
	}
	nInput, nConst := 0, 0
	ord := map[string]int{}
	for _, f := range fam {
		eachInstr(f, func(in ssa.Instruction) {
			c, ok := in.(ssa.CallInstruction)
			if !ok || errResultIndex(c.Common().Signature()) < 0 {
				return
			}
			if calleePkgPath(c) != modPath+"/klog" {
				return
			}
			name := calleeName(c)
			ord[name]++
			key := fmt.Sprintf("%s#%d", name, ord[name])
			cl, why := p.classifyErr(c)
			switch cl {
			case errConstant:
				nConst++
				r.ok(rule, key, p.instrPos(c), "exempt: all arguments are compile-time constants")
			case errChecked:
				// the error must control a branch or be returned to a caller that tests it
				e := resultOf(c, errResultIndex(c.Common().Signature()))
				tested := len(nilTestsOf(f, e)) > 0
				if !tested {
					for _, ret := range returnsOf(f) {
						for _, res := range ret.Results {
							if sameValue(res, e) {
								tested = true
							}
						}
					}
				}
				nInput++
				r.check(tested, rule, key, p.instrPos(c), "the error of "+name+" is tested", "the error of "+name+" is used but never tested: invalid text is accepted")
			default:
				nInput++
				r.bad(rule, key, p.instrPos(c), "%s is applied to text of the file and its error is %s: text that breaks a MUST rule is accepted (%s)", name, cl, why)
			}
		})
	}
	if nInput < 10 {
		r.undecided(rule, "floor", "-", "found %d input-dependent fallible constructor calls in the parser, expected at least 10", nInput)
	}
}

// errsCell: the variable of parse whose value is returned as the error list.
func errsCell(parse *ssa.Function) *ssa.Alloc {
	for _, ret := range returnsOf(parse) {
		if len(ret.Results) == 2 && !isNilConst(retResult(ret, 1)) {
			if u, ok := strip(retResult(ret, 1)).(*ssa.UnOp); ok && u.Op == token.MUL {
				return cellOf(u.X)
			}
		}
	}
	return nil
}

// errAcc: the error list of parse — a variable captured by closures (a cell), or, when nothing
// captures it, the web of phis and append calls that ends in the value parse returns.
type errAcc struct {
	cell *ssa.Alloc
	web  map[ssa.Value]bool
}

func errsAccOf(parse *ssa.Function) *errAcc {
	if c := errsCell(parse); c != nil {
		return &errAcc{cell: c}
	}
	for _, ret := range returnsOf(parse) {
		if len(ret.Results) != 2 || isNilConst(retResult(ret, 1)) {
			continue
		}
		web := map[ssa.Value]bool{}
		var walk func(x ssa.Value, depth int)
		walk = func(x ssa.Value, depth int) {
			x = strip(x)
			if web[x] || depth > 40 {
				return
			}
			switch y := x.(type) {
			case *ssa.Phi:
				web[x] = true
				for _, e := range y.Edges {
					walk(e, depth+1)
				}
			case *ssa.Call:
				if bi, ok := y.Call.Value.(*ssa.Builtin); ok && bi.Name() == "append" {
					web[x] = true
					walk(y.Call.Args[0], depth+1)
				}
			}
		}
		walk(retResult(ret, 1), 0)
		if len(web) > 0 {
			return &errAcc{web: web}
		}
	}
	return nil
}

// is: v is the current value of the error list.
func (a *errAcc) is(v ssa.Value) bool {
	v = strip(v)
	if a.cell != nil {
		u, ok := v.(*ssa.UnOp)
		return ok && u.Op == token.MUL && cellOf(u.X) == a.cell
	}
	if a.web[v] {
		return true
	}
	// the empty start value of the web
	return false
}

// appendsTo: c is `append(<the list>, …)` whose result becomes the list again.
func (a *errAcc) appendsTo(c *ssa.Call) bool {
	bi, ok := c.Call.Value.(*ssa.Builtin)
	if !ok || bi.Name() != "append" {
		return false
	}
	if a.cell != nil {
		if !a.is(c.Call.Args[0]) {
			return false
		}
		for _, r4 := range *c.Referrers() {
			if st, ok := r4.(*ssa.Store); ok && cellOf(st.Addr) == a.cell {
				return true
			}
		}
		return false
	}
	return a.web[c]
}

func ruleP01ErrFlow(p *Prog, r *Report) {
	const rule = "P01-errflow"
	parse, fam := parseFamily(p)
	newM := p.method("klog/parser", "HumanError", "New")
	if !r.anchorFn(rule, parse, "parser.parse") || !r.anchorFn(rule, newM, "HumanError.New") {
		return
	}
	acc := errsAccOf(parse)
	if acc == nil {
		r.undecided(rule, "errs", p.pos(parse.Pos()), "the error list returned by parse is not a local variable")
		return
	}
	sg := newSuperGraph(parse)
	// reaches: does value v (an error) end up appended to the errs cell?
	var reaches func(v ssa.Value, depth int) bool
	reaches = func(v ssa.Value, depth int) bool {
		if depth > 6 || v.Referrers() == nil {
			return false
		}
		for _, ref := range *v.Referrers() {
			switch x := ref.(type) {
			case *ssa.Store:
				// element of a varargs slice that is appended to errs
				if ia, ok := x.Addr.(*ssa.IndexAddr); ok {
					if a, ok := ia.X.(*ssa.Alloc); ok {
						for _, r2 := range *a.Referrers() {
							if sl, ok := r2.(*ssa.Slice); ok {
								for _, r3 := range *sl.Referrers() {
									if c, ok := r3.(*ssa.Call); ok {
										if acc.appendsTo(c) {
											return true
										}
									}
								}
							}
						}
					}
				}
			case *ssa.Return:
				g := x.Parent()
				idx := -1
				for i, res := range x.Results {
					if res == v {
						idx = i
					}
				}
				call := sg.callSite[g]
				if call != nil && idx >= 0 {
					if rv := resultOf(call, idx); rv != nil && reaches(rv, depth+1) {
						return true
					}
				} else if calls := sg.sites[g]; len(calls) > 1 && idx >= 0 {
					// a local function that is called in several places: the error must reach
					// the list from every one of them
					all := true
					for _, cs := range calls {
						rv := resultOf(cs, idx)
						if rv == nil || !reaches(rv, depth+1) {
							all = false
						}
					}
					if all {
						return true
					}
				}
			case *ssa.MakeInterface, *ssa.ChangeInterface, *ssa.Phi:
				if reaches(x.(ssa.Value), depth+1) {
					return true
				}
			case *ssa.Call:
				// handed to a local function (`report(err)`): on from its parameter
				for g, sites := range sg.sites {
					for _, s := range sites {
						if s != x {
							continue
						}
						for i, a := range x.Call.Args {
							if a == v && i < len(g.Params) && reaches(g.Params[i], depth+1) {
								return true
							}
						}
					}
				}
			}
		}
		return false
	}
	n := 0
	ord := map[string]int{}
	for _, f := range fam {
		eachInstr(f, func(in ssa.Instruction) {
			c, ok := in.(*ssa.Call)
			if !ok || !sameFn(staticCallee(c), newM) {
				return
			}
			n++
			if k := len(sg.sites[f]); k > 1 {
				n += k - 1 // one creation site that serves k places
			}
			code := "?"
			if rc, _ := callOf(c.Call.Args[0]); rc != nil && staticCallee(rc) != nil {
				code = fnBase(staticCallee(rc))
			}
			ord[fnName(f)+code]++
			key := fmt.Sprintf("%s:%s#%d", fnName(f), code, ord[fnName(f)+code])
			r.check(reaches(c, 0), rule, key, p.instrPos(c), "the error reaches the list that parse returns", "this error is created but never reaches the error list: the text is accepted")
		})
	}
	if n < 18 {
		r.undecided(rule, "floor", "-", "found %d error creation sites, expected at least 18", n)
	}
}

func ruleP01NoRecord(p *Prog, r *Report) {
	const rule = "P01-norecord"
	parse, _ := parseFamily(p)
	if !r.anchorFn(rule, parse, "parser.parse") {
		return
	}
	acc := errsAccOf(parse)
	if acc == nil {
		r.undecided(rule, "errs", p.pos(parse.Pos()), "the error list returned by parse is not a local variable")
		return
	}
	for i, ret := range returnsOf(parse) {
		key := fmt.Sprintf("parse:return#%d", i)
		if !isNilConst(retResult(ret, 0)) {
			empty := false
			for _, g := range guardsOf(ret.Block()) {
				if x, isNil, ok := nilFact(g); ok && isNil && acc.is(x) {
					empty = true
				}
			}
			r.check(empty && isNilConst(retResult(ret, 1)), rule, key, p.instrPos(ret), "a record is returned only when the error list is empty", "a record can be returned although errors were recorded")
		} else {
			r.check(acc.is(retResult(ret, 1)), rule, key, p.instrPos(ret), "no record -> the collected errors are returned", "no record is returned but the collected errors are not returned either")
		}
	}
	// engines: covered by P06-shape (serial) and P07-errmerge (parallel); run them for this property too
	sub := &Report{p: p}
	ruleP06Shape(p, sub)
	ruleP07ErrMerge(p, sub)
	for _, o := range sub.Obligs {
		if o.Rule == rule {
			r.Obligs = append(r.Obligs, o)
			if r.counts == nil {
				r.counts = map[string]int{}
			}
			r.counts[rule]++
		}
	}
	r.floor(rule, 6)
}

func ruleP01Placeholder(p *Prog, r *Report) {
	const rule = "P01-placeholder"
	parse, fam := parseFamily(p)
	if !r.anchorFn(rule, parse, "parser.parse") {
		return
	}
	n := 0
	for _, f := range fam {
		for _, b := range f.Blocks {
			iff, ok := b.Instrs[len(b.Instrs)-1].(*ssa.If)
			if !ok {
				continue
			}
			bo, ok := iff.Cond.(*ssa.BinOp)
			if !ok || (bo.Op != token.NEQ && bo.Op != token.EQL) {
				continue
			}
			// equivalent spelling: strings.Trim(<placeholder text>, "?") != ""
			if es, isS := constString(bo.Y); isS && es == "" {
				if tc, _ := callOf(strip(bo.X)); tc != nil && staticCallee(tc) != nil {
					switch staticCallee(tc).String() {
					case "strings.Trim", "strings.TrimLeft", "strings.TrimRight":
						if cut, isC := constString(tc.Common().Args[1]); isC && cut == "?" {
							n++
							other := b.Succs[0]
							if bo.Op == token.EQL {
								other = b.Succs[1]
							}
							msg := rejectComplete(other, func(ret *ssa.Return) string {
								if len(ret.Results) < 2 || p.nilnessAt(ret.Block(), ret.Results[len(ret.Results)-1], 0) != nnNonNil {
									return "does not return an error at " + p.instrPos(ret)
								}
								return ""
							})
							r.check(msg == "", rule, fnName(f)+":placeholder", p.instrPos(iff), "any placeholder character other than '?' is rejected on every path", "a placeholder character other than '?' is not always rejected: "+msg)
						}
					}
				}
				continue
			}
			k, isK := constInt(bo.Y)
			if !isK || k != '?' {
				continue
			}
			// X is an element of <parseable>.Chars
			coll := rangeElemOf(bo.X)
			if coll == nil {
				continue
			}
			if _, fld := fieldLoad(coll); fld != "Chars" {
				continue
			}
			n++
			other := b.Succs[0]
			if bo.Op == token.EQL {
				other = b.Succs[1]
			}
			msg := rejectComplete(other, func(ret *ssa.Return) string {
				if len(ret.Results) < 2 || p.nilnessAt(ret.Block(), ret.Results[len(ret.Results)-1], 0) != nnNonNil {
					return "does not return an error at " + p.instrPos(ret)
				}
				return ""
			})
			r.check(msg == "", rule, fnName(f)+":placeholder", p.instrPos(iff), "any placeholder character other than '?' is rejected on every path", "a placeholder character other than '?' is not always rejected (a shifted placeholder such as ?> can be accepted): "+msg)
		}
	}
	if n == 0 {
		r.bad(rule, "placeholder", p.pos(parse.Pos()), "the characters of the open-range placeholder are not compared with '?'")
	}
}

func ruleP01Guards(p *Prog, r *Report) {
	const rule = "P01-guards"
	parse, fam := parseFamily(p)
	if !r.anchorFn(rule, parse, "parser.parse") {
		return
	}
	// left-over text in the headline: a test of "characters remaining" = len(Chars) - PointerPosition
	// (spelled through any of the Parseable accessors, on either side of the comparison) against a
	// constant; normalised to "remaining >= t", the error must be raised for t == 1
	n := 0
	for _, f := range fam {
		for _, b := range f.Blocks {
			iff, ok := b.Instrs[len(b.Instrs)-1].(*ssa.If)
			if !ok {
				continue
			}
			bo, ok := normCmp(iff.Cond)
			if !ok || !isIntType(bo.X.Type()) {
				continue
			}
			d := polySub(polyX(bo.X), polyX(bo.Y))
			sgn, isRem := remainingShape(d)
			if !isRem {
				continue
			}
			n++
			// sgn*remaining + C op 0  <=>  remaining op' k
			op, k := bo.Op, -d.C
			if sgn < 0 {
				k = d.C
				op = map[token.Token]token.Token{token.LSS: token.GTR, token.GTR: token.LSS, token.LEQ: token.GEQ, token.GEQ: token.LEQ, token.EQL: token.EQL, token.NEQ: token.NEQ}[op]
			}
			// normalise to "remaining >= t" on edge errSucc
			t, errSucc := int64(-1), 0
			switch op {
			case token.GTR:
				t = k + 1
			case token.GEQ:
				t = k
			case token.NEQ:
				if k == 0 {
					t = 1
				}
			case token.LEQ:
				t, errSucc = k+1, 1
			case token.LSS:
				t, errSucc = k, 1
			case token.EQL:
				if k == 0 {
					t, errSucc = 1, 1
				}
			}
			r.check(t == 1, rule, fnName(f)+":headline-rest", p.instrPos(iff), "any remaining character in the headline is an error", fmt.Sprintf("left-over headline text is only rejected from %d characters on", t))
			// the "something remains" edge appends an error
			succ := b.Succs[errSucc]
			hasNew := false
			for _, in := range succ.Instrs {
				if c, ok := in.(*ssa.Call); ok && staticCallee(c) != nil && fnBase(staticCallee(c)) == "New" {
					hasNew = true
				}
			}
			r.check(hasNew, rule, fnName(f)+":headline-rest:error", p.instrPos(iff), "the guard raises an error", "the guard for left-over headline text raises no error")
		}
	}
	if n == 0 {
		r.bad(rule, "headline-rest", p.pos(parse.Pos()), "the headline is not checked for left-over text")
	}
}

func ruleP01Kinds(p *Prog, r *Report) {
	const rule = "P01-kinds"
	_, fam := parseFamily(p)
	pk := p.pkg("klog/parser")
	if pk == nil || fam == nil {
		r.undecided(rule, "anchor", "-", "package parser not loaded")
		return
	}
	raised := map[string]bool{}
	for _, f := range fam {
		eachInstr(f, func(in ssa.Instruction) {
			if c, ok := in.(*ssa.Call); ok && staticCallee(c) != nil && fnBase(staticCallee(c)) == "New" && len(c.Call.Args) > 0 {
				if rc, _ := callOf(c.Call.Args[0]); rc != nil && staticCallee(rc) != nil {
					raised[fnBase(staticCallee(rc))] = true
				}
			}
		})
	}
	n := 0
	sc := pk.Types.Scope()
	for _, name := range sc.Names() {
		fo, ok := sc.Lookup(name).(*types.Func)
		if !ok {
			continue
		}
		sig := fo.Type().(*types.Signature)
		if sig.Params().Len() == 0 && sig.Results().Len() == 1 && typeNameOf(sig.Results().At(0).Type()) == "HumanError" {
			n++
			r.check(raised[name], rule, name, p.pos(fo.Pos()), "raised by the parser", "error kind "+name+" is defined but the parser never raises it: the MUST rule it stands for is no longer checked")
		}
	}
	if n < 10 {
		r.undecided(rule, "floor", "-", "found %d error kinds, expected 10", n)
	}
}

func ruleP01Lex(p *Prog, r *Report) {
	const rule = "P01-lex"
	type pat struct {
		global, fn string
		shape      string // equivalence reference
		valid      string // inclusion reference (spec-valid literals)
		matchLen   int    // len(match) expected on success (0: nil test)
	}
	for _, pt := range []pat{
		{"datePattern", "NewDateFromString", `\d{4}[-/]\d{2}[-/]\d{2}`, `\d{4}-\d{2}-\d{2}|\d{4}/\d{2}/\d{2}`, 4},
		{"timePattern", "NewTimeFromString", `<?\d{1,2}:\d{2}(am|pm)?>?`, `<?([01]?\d|2[0-4]):[0-5]\d>?|<?(0?[1-9]|1[0-2]):[0-5]\d(am|pm)>?`, 6},
		{"durationPattern", "NewDurationFromString", `[-+]?(\d+h)?(\d+m)?`, `[-+]?(\d+h[0-5]?\d m|\d+h|\d+m)`, 0},
	} {
		g := p.global("klog", pt.global)
		if g == nil {
			r.undecided(rule, pt.global, "-", "pattern variable klog.%s not found", pt.global)
			continue
		}
		src, ok := p.regexOfGlobal(g)
		if !ok {
			r.undecided(rule, pt.global, p.pos(g.Pos()), "klog.%s is not initialised once with regexp.MustCompile(constant)", pt.global)
			continue
		}
		eq, w, err := reEquivalent(src, pt.shape)
		if err != nil {
			r.undecided(rule, pt.global+":shape", p.pos(g.Pos()), "cannot compare pattern: %v", err)
		} else {
			r.check(eq, rule, pt.global+":shape", p.pos(g.Pos()), fmt.Sprintf("%s is language-equivalent to the specification's shape %s", src, pt.shape), fmt.Sprintf("%s differs from the specification's lexical shape %s: %s", src, pt.shape, w))
		}
		valid := strings.ReplaceAll(pt.valid, " ", "")
		inc, w2, err2 := reIncluded(valid, src)
		if err2 != nil {
			r.undecided(rule, pt.global+":valid", p.pos(g.Pos()), "cannot compare pattern: %v", err2)
		} else {
			r.check(inc, rule, pt.global+":valid", p.pos(g.Pos()), "every spec-valid literal matches the pattern", fmt.Sprintf("the spec-valid literal %q is not matched by %s", w2, src))
		}
		// the constructor fails on every path where the pattern does not match
		f := p.fn("klog", pt.fn)
		if !r.anchorFn(rule, f, "klog."+pt.fn) {
			continue
		}
		okRej := false
		var matchV ssa.Value
		eachInstr(f, func(in ssa.Instruction) {
			if c, ok := in.(ssa.CallInstruction); ok {
				if n, recv, _, _ := methodCallOf(c); n == "FindStringSubmatch" {
					if u, ok := strip(recv).(*ssa.UnOp); ok && u.X == ssa.Value(g) {
						matchV = c.Value()
						// applied to the function's argument
						if len(c.Common().Args) < 2 || strip(c.Common().Args[1]) != ssa.Value(f.Params[0]) {
							matchV = nil
						}
					}
				}
			}
		})
		if matchV == nil {
			r.bad(rule, pt.fn+":gate", p.pos(f.Pos()), "%s does not match its argument against %s", pt.fn, pt.global)
			continue
		}
		for _, b := range f.Blocks {
			iff, ok := b.Instrs[len(b.Instrs)-1].(*ssa.If)
			if !ok {
				continue
			}
			var noMatch *ssa.BasicBlock
			if x, isNil, ok := nilFact(Guard{Cond: iff.Cond, Pol: true}); ok && sameValue(x, matchV) {
				if isNil {
					noMatch = b.Succs[0]
				} else {
					noMatch = b.Succs[1]
				}
			}
			if bo, ok := iff.Cond.(*ssa.BinOp); ok && pt.matchLen > 0 {
				if lc, ok := bo.X.(*ssa.Call); ok {
					if bi, ok := lc.Call.Value.(*ssa.Builtin); ok && bi.Name() == "len" && sameValue(lc.Call.Args[0], matchV) {
						if k, isK := constInt(bo.Y); isK && int(k) == pt.matchLen {
							switch bo.Op {
							case token.NEQ:
								noMatch = b.Succs[0]
							case token.EQL:
								noMatch = b.Succs[1]
							}
						}
					}
				}
			}
			if noMatch == nil {
				continue
			}
			msg := rejectComplete(noMatch, func(ret *ssa.Return) string {
				if p.nilnessAt(ret.Block(), retResult(ret, 1), 0) != nnNonNil {
					return "no error"
				}
				return ""
			})
			if msg == "" {
				okRej = true
			}
		}
		r.check(okRej, rule, pt.fn+":gate", p.pos(f.Pos()), "no match -> error on every path", pt.fn+" does not fail on every path where the pattern does not match")
		// … and nothing is accepted without having been matched: every successful return lies
		// behind the match (no fast path that recognises "the common case" by other means)
		if mi, isIn := matchV.(ssa.Instruction); isIn {
			for i, ret := range returnsOf(f) {
				if len(ret.Results) < 2 {
					continue
				}
				if ev := retResult(ret, len(ret.Results)-1); !isNilConst(ev) && p.nilnessAt(ret.Block(), ev, 0) == nnNonNil {
					continue // a refusal
				}
				behind := mi.Block() == ret.Block() || mi.Block().Dominates(ret.Block())
				r.check(behind, rule, fmt.Sprintf("%s:gate:success#%d", pt.fn, i), p.instrPos(ret), "a value is handed out only after the text matched the pattern", pt.fn+" hands out a value on a path on which the text was never matched against "+pt.global+": whatever that path accepts beyond the pattern (a sign in front of a number, say) is accepted although it is not a literal of the specification")
			}
		}
	}
	// summary line patterns (used with MatchString: search semantics)
	for _, sp := range []struct{ global, ref, what string }{
		{"recordSummaryLinePattern", `[\p{Zs}\t](?s:.*)`, "line starts with a tab or a Unicode space separator"},
		{"entrySummaryLinePattern", `[\p{Zs}\t]*`, "line consists only of tabs and Unicode space separators"},
	} {
		g := p.global("klog", sp.global)
		if g == nil {
			r.undecided(rule, sp.global, "-", "pattern variable klog.%s not found", sp.global)
			continue
		}
		src, ok := p.regexOfGlobal(g)
		if !ok {
			r.undecided(rule, sp.global, p.pos(g.Pos()), "klog.%s is not initialised once with regexp.MustCompile(constant)", sp.global)
			continue
		}
		eq, w, err := reEquivalent(`(?s:.*)(?:`+src+`)(?s:.*)`, sp.ref)
		if err != nil {
			r.undecided(rule, sp.global, p.pos(g.Pos()), "cannot compare pattern: %v", err)
			continue
		}
		r.check(eq, rule, sp.global, p.pos(g.Pos()), src+" means: "+sp.what, fmt.Sprintf("%s does not mean %q: %s", src, sp.what, w))
	}
	// the summary constructors reject on a match (and on empty lines)
	for _, fnm := range []string{"NewRecordSummary", "NewEntrySummary"} {
		f := p.fn("klog", fnm)
		if !r.anchorFn(rule, f, "klog."+fnm) {
			continue
		}
		okM := false
		for _, b := range f.Blocks {
			iff, ok := b.Instrs[len(b.Instrs)-1].(*ssa.If)
			if !ok {
				continue
			}
			gs := flattenCond(iff.Cond, true, iff)
			if n, _, _, _ := methodCall(gs[0].Cond); n == "MatchString" {
				succ := b.Succs[0]
				if !gs[0].Pol {
					succ = b.Succs[1]
				}
				if rejectComplete(succ, func(ret *ssa.Return) string {
					if p.nilnessAt(ret.Block(), retResult(ret, 1), 0) != nnNonNil {
						return "no error"
					}
					return ""
				}) == "" {
					okM = true
				}
			}
		}
		r.check(okM, rule, fnm+":gate", p.pos(f.Pos()), "a line matching the blank pattern is rejected on every path", fnm+" does not reject every line that matches its blank pattern")
	}
}

// ---------------------------------------------------------------------------------------------
// C16

func ruleP16Order(p *Prog, r *Report) {
	const rule = "P16-order"
	f := p.fn("klog", "NewRangeWithFormat")
	if !r.anchorFn(rule, f, "klog.NewRangeWithFormat") {
		return
	}
	start, end := f.Params[0], f.Params[1]
	okGuard := false
	for _, b := range f.Blocks {
		iff, ok := b.Instrs[len(b.Instrs)-1].(*ssa.If)
		if !ok {
			continue
		}
		gs := flattenCond(iff.Cond, true, iff)
		n, recv, args, _ := methodCall(gs[0].Cond)
		if n != "IsAfterOrEqual" || len(args) != 1 || strip(recv) != ssa.Value(end) || strip(args[0]) != ssa.Value(start) {
			continue
		}
		rej := b.Succs[1]
		acc := b.Succs[0]
		if !gs[0].Pol {
			rej, acc = acc, rej
		}
		m1 := rejectComplete(rej, func(ret *ssa.Return) string {
			if !isNilConst(retResult(ret, 0)) || p.nilnessAt(ret.Block(), retResult(ret, 1), 0) != nnNonNil {
				return "not (nil, error)"
			}
			return ""
		})
		m2 := rejectComplete(acc, func(ret *ssa.Return) string {
			if isNilConst(retResult(ret, 0)) || !isNilConst(retResult(ret, 1)) {
				return "not (range, nil)"
			}
			return ""
		})
		// the comparison decides every call: no other condition gets to skip it
		all := len(guardsOf(b)) == 0 && skippableAt(b, nil) == nil
		for _, ret := range returnsOf(f) {
			if !b.Dominates(ret.Block()) {
				all = false
			}
		}
		okGuard = m1 == "" && m2 == "" && all
	}
	r.check(okGuard, rule, "range-valid", p.pos(f.Pos()), "a range is rejected exactly when !end.IsAfterOrEqual(start)", "NewRangeWithFormat does not reject exactly the ranges whose end is before their start")
	// stored in place
	okStore := 0
	eachInstr(f, func(in ssa.Instruction) {
		if st, ok := in.(*ssa.Store); ok {
			if fa, ok := st.Addr.(*ssa.FieldAddr); ok {
				if fieldName(fa) == "start" && strip(st.Val) == ssa.Value(start) {
					okStore++
				}
				if fieldName(fa) == "end" && strip(st.Val) == ssa.Value(end) {
					okStore++
				}
			}
		}
	})
	r.check(okStore == 2, rule, "range-fields", p.pos(f.Pos()), "start and end are stored in place", "start/end are swapped or dropped in the constructed range")
	// comparisons on time
	for _, c := range []struct {
		name string
		op   token.Token
	}{{"IsAfterOrEqual", token.GEQ}, {"IsEqualTo", token.EQL}} {
		m := p.method("klog", "time", c.name)
		if !r.anchorFn(rule, m, "time."+c.name) {
			continue
		}
		for _, ret := range returnsOf(m) {
			bo, ok := normCmp(retResult(ret, 0))
			good := false
			if ok && bo.Op == c.op {
				good = isOffsetOf(bo.X, m.Params[0]) && isOffsetOf(bo.Y, m.Params[1])
			}
			if ok && !good && c.op == token.GEQ && bo.Op == token.LEQ {
				good = isOffsetOf(bo.Y, m.Params[0]) && isOffsetOf(bo.X, m.Params[1])
			}
			if ok && !good && c.op == token.EQL && bo.Op == token.EQL {
				good = isOffsetOf(bo.Y, m.Params[0]) && isOffsetOf(bo.X, m.Params[1])
			}
			if !good {
				// written through a three-way comparison (or otherwise): evaluated for the three
				// possible orders of the two offsets
				all := true
				for _, sg := range []int64{-1, 0, 1} {
					v, okS := simTimeCmp(m, m.Params[0], m.Params[1], sg, 0)
					want := int64(0)
					if (c.op == token.GEQ && sg >= 0) || (c.op == token.EQL && sg == 0) {
						want = 1
					}
					if !okS || v != want {
						all = false
					}
				}
				good = all
			}
			r.check(good, rule, "time."+c.name, p.instrPos(ret), c.name+" compares both midnight offsets (day shift included) with "+c.op.String(), "time."+c.name+" does not compare the two MidnightOffset().InMinutes() values with "+c.op.String()+" (e.g. it ignores the day shift)")
		}
	}
}

// normCmp reads a comparison through negations: !(a < b) is a >= b. The returned BinOp is a
// description (not an instruction of the program) when a negation was folded in.
func normCmp(v ssa.Value) (*ssa.BinOp, bool) {
	v = strip(v)
	neg := false
	for {
		u, ok := v.(*ssa.UnOp)
		if !ok || u.Op != token.NOT {
			break
		}
		neg = !neg
		v = strip(u.X)
	}
	bo, ok := v.(*ssa.BinOp)
	if !ok {
		return nil, false
	}
	if !neg {
		return bo, true
	}
	inv := map[token.Token]token.Token{token.LSS: token.GEQ, token.GEQ: token.LSS, token.GTR: token.LEQ, token.LEQ: token.GTR, token.EQL: token.NEQ, token.NEQ: token.EQL}
	op, known := inv[bo.Op]
	if !known {
		return nil, false
	}
	return &ssa.BinOp{Op: op, X: bo.X, Y: bo.Y}, true
}

// isOffsetOf: v == who.MidnightOffset().InMinutes()
func isOffsetOf(v ssa.Value, who ssa.Value) bool {
	n, recv, _, _ := methodCall(v)
	if n != "InMinutes" {
		return false
	}
	n, recv, _, _ = methodCall(recv)
	return n == "MidnightOffset" && strip(recv) == who
}

func ruleP16Closed(p *Prog, r *Report) {
	const rule = "P16-closed"
	allowed := map[string]map[string]bool{
		"time":      {"klog.newTime": true},
		"date":      {"klog.civil2Date": true},
		"duration":  {"klog.NewDurationWithFormat": true},
		"timeRange": {"klog.NewRangeWithFormat": true},
		// (openRange is not in the table: its constructor validates nothing — every Time is a
		// valid start — so building one elsewhere makes nothing representable that was not)
	}
	n := 0
	for _, f := range p.srcFns {
		if pkgPathOfFn(f) != modPath+"/klog" {
			continue
		}
		eachInstr(f, func(in ssa.Instruction) {
			a, ok := in.(*ssa.Alloc)
			if !ok {
				return
			}
			tn := typeNameOf(a.Type())
			al, tracked := allowed[tn]
			if !tracked || typePkgPath(a.Type()) != modPath+"/klog" {
				return
			}
			// a local copy of an existing valid value (c := *t) is not a construction
			isCopy := false
			for _, s := range storesTo(a) {
				if u, ok := strip(s.val).(*ssa.UnOp); ok && u.Op == token.MUL {
					isCopy = true
				}
				if _, ok := strip(s.val).(*ssa.Parameter); ok {
					isCopy = true
				}
			}
			fieldStores := 0
			for _, ref := range *a.Referrers() {
				if fa, ok := ref.(*ssa.FieldAddr); ok {
					for _, r2 := range *fa.Referrers() {
						if _, ok := r2.(*ssa.Store); ok {
							fieldStores++
						}
					}
				}
			}
			if isCopy {
				// copies may change the format field only
				okFmt := true
				for _, ref := range *a.Referrers() {
					if fa, ok := ref.(*ssa.FieldAddr); ok {
						for _, r2 := range *fa.Referrers() {
							if _, ok := r2.(*ssa.Store); ok && fieldName(fa) != "format" {
								okFmt = false
							}
						}
					}
				}
				n++
				r.check(okFmt, rule, tn+":copy:"+fnName(f), p.instrPos(a), "copy of a valid "+tn+" with only its format changed", "a copy of a "+tn+" has a value field overwritten outside the validating constructor")
				return
			}
			if fieldStores == 0 {
				return // zero value used as receiver copy etc.
			}
			// a literal that takes every value field from the same-named field of one existing
			// value of the type is a copy spelled field by field
			if !al[fnName(f)] {
				fieldwise := true
				var src ssa.Value
				for _, ref := range *a.Referrers() {
					fa, ok := ref.(*ssa.FieldAddr)
					if !ok {
						continue
					}
					for _, r2 := range *fa.Referrers() {
						st, ok := r2.(*ssa.Store)
						if !ok || fieldName(fa) == "format" {
							continue
						}
						base, fld := fieldLoad(st.Val)
						if base == nil || fld != fieldName(fa) || typeNameOf(base.Type()) != tn {
							fieldwise = false
							continue
						}
						if src == nil {
							src = base
						} else if !sameValue(src, base) && strip(src) != strip(base) {
							fieldwise = false
						}
					}
				}
				if fieldwise && src != nil {
					n++
					r.ok(rule, tn+":copy:"+fnName(f), p.instrPos(a), "field-by-field copy of a valid "+tn+" with only its format changed")
					return
				}
			}
			n++
			r.check(al[fnName(f)], rule, tn+":"+fnName(f), p.instrPos(a), tn+" is constructed in its validating constructor", "a "+tn+" value is constructed outside its validating constructor (in "+fnName(f)+"): invalid values become representable")
		})
	}
	// … and stay as constructed: no method writes a field of its receiver (a value that is shared
	// — the end of a range, an entry of a record — would change under everyone who holds it)
	for _, f := range p.srcFns {
		if pkgPathOfFn(f) != modPath+"/klog" || f.Signature.Recv() == nil || len(f.Params) == 0 {
			continue
		}
		tn := typeNameOf(f.Params[0].Type())
		if _, tracked := allowed[tn]; !tracked {
			continue
		}
		eachInstr(f, func(in ssa.Instruction) {
			st, ok := in.(*ssa.Store)
			if !ok {
				return
			}
			fa, ok := st.Addr.(*ssa.FieldAddr)
			if !ok || strip(fa.X) != ssa.Value(f.Params[0]) {
				return
			}
			if _, isPtr := f.Params[0].Type().Underlying().(*types.Pointer); !isPtr {
				return
			}
			n++
			r.bad(rule, tn+":mutated:"+fnName(f), p.instrPos(st), "%s overwrites the field %s of its receiver: a %s is an immutable value, and every holder of this one (a range, a record's entry) sees it change", fnName(f), fieldName(fa), tn)
		})
	}
	// validity tests dominate the constructions
	if f := p.fn("klog", "newTime"); r.anchorFn(rule, f, "klog.newTime") {
		ok := false
		eachInstr(f, func(in ssa.Instruction) {
			if a, isA := in.(*ssa.Alloc); isA && typeNameOf(a.Type()) == "time" {
				for _, g := range guardsOf(a.Block()) {
					if n, _, _, _ := methodCall(g.Cond); n == "IsValid" && g.Pol {
						ok = true
					}
				}
				// or the same test written out: 0 <= hour <= 23 and 0 <= minute <= 59 for the
				// very values that are stored
				var hv, mv ssa.Value
				for _, ref := range *a.Referrers() {
					if fa, isFA := ref.(*ssa.FieldAddr); isFA {
						for _, r2 := range *fa.Referrers() {
							if st, isSt := r2.(*ssa.Store); isSt && st.Addr == ssa.Value(fa) {
								switch fieldName(fa) {
								case "hour":
									hv = st.Val
								case "minute":
									mv = st.Val
								}
							}
						}
					}
				}
				if hv != nil && mv != nil && provenWithin(guardsOf(a.Block()), hv, 0, 23) && provenWithin(guardsOf(a.Block()), mv, 0, 59) {
					ok = true
				}
			}
		})
		r.check(ok, rule, "time:validated", p.pos(f.Pos()), "a time is only built when civil.Time.IsValid()", "newTime builds a time without (or regardless of) the validity test")
	}
	if f := p.fn("klog", "civil2Date"); r.anchorFn(rule, f, "klog.civil2Date") {
		okValid, okRange := false, false
		eachInstr(f, func(in ssa.Instruction) {
			if a, isA := in.(*ssa.Alloc); isA && typeNameOf(a.Type()) == "date" {
				lo, hi := false, false
				for _, g := range guardsOf(a.Block()) {
					if n, _, _, _ := methodCall(g.Cond); n == "IsValid" && g.Pol {
						okValid = true
					}
					if bo, ok := g.Cond.(*ssa.BinOp); ok {
						_, fld := fieldLoad(bo.X)
						k, isK := constInt(bo.Y)
						if fld == "Year" && isK {
							// what is known about the year on the way to the construction
							op := bo.Op
							if !g.Pol {
								op = map[token.Token]token.Token{token.LSS: token.GEQ, token.GEQ: token.LSS, token.GTR: token.LEQ, token.LEQ: token.GTR, token.EQL: token.NEQ, token.NEQ: token.EQL}[op]
							}
							if (op == token.GEQ && k == 0) || (op == token.GTR && k == -1) {
								lo = true
							}
							if (op == token.LEQ && k == 9999) || (op == token.LSS && k == 10000) {
								hi = true
							}
						}
					}
				}
				okRange = lo && hi
			}
		})
		r.check(okValid && okRange, rule, "date:validated", p.pos(f.Pos()), "a date is only built when civil.Date.IsValid() and 0 <= year <= 9999", "civil2Date builds a date without the validity test or outside years 0..9999")
	}
	if n < 5 {
		r.undecided(rule, "floor", "-", "found %d constructions of value types, expected at least 5", n)
	}
}

// ruleP16AmPm: the 12-hour tables of ToString and NewTimeFromString are mutually inverse on
// the hour classes {0, 1..11, 12, 13..23}.
func ruleP16AmPm(p *Prog, r *Report) {
	const rule = "P16-ampm"
	ts := p.method("klog", "time", "ToString")
	if !r.anchorFn(rule, ts, "time.ToString") {
		return
	}
	// printing: the local closure returning (hour, suffix)
	var pr *ssa.Function
	for _, a := range ts.AnonFuncs {
		if a.Signature.Results().Len() == 2 {
			pr = a
		}
	}
	if pr == nil {
		// ToString may hand its own format to ToStringWithFormat, which then does the printing
		if alt := p.method("klog", "time", "ToStringWithFormat"); alt != nil && len(callsTo(ts, alt)) > 0 {
			for _, a := range alt.AnonFuncs {
				if a.Signature.Results().Len() == 2 {
					pr, ts = a, alt
				}
			}
		}
	}
	if pr == nil {
		// the same selection as a helper function or method of two results (int, string)
		for _, h := range helpersCalledFrom([]*ssa.Function{ts}) {
			if res := h.Signature.Results(); res.Len() == 2 && isIntType(res.At(0).Type()) && res.At(1).Type().String() == "string" {
				pr = h
			}
		}
	}
	pairStruct := func(t types.Type) bool {
		st, ok := t.Underlying().(*types.Struct)
		return ok && st.NumFields() == 2 && isIntType(st.Field(0).Type()) && isStringType(st.Field(1).Type())
	}
	if pr == nil {
		// the pair handed back as one small struct {hour int; suffix string}
		for _, a := range ts.AnonFuncs {
			if a.Signature.Results().Len() == 1 && pairStruct(a.Signature.Results().At(0).Type()) {
				pr = a
			}
		}
	}
	if pr == nil {
		r.undecided(rule, "print", p.pos(ts.Pos()), "the (hour, suffix) selection of ToString is not a local function literal")
		return
	}
	retPart := func(ret *ssa.Return, i int) ssa.Value {
		if len(ret.Results) == 1 {
			if v, ok := compositeLitField(ret.Results[0], i); ok && v != nil {
				return v
			}
			if v, ok := compositeLitField(ret.Results[0], i); ok && v == nil {
				// field left at its zero value
				if i == 0 {
					return ssa.NewConst(constant.MakeInt64(0), types.Typ[types.Int])
				}
				return emptyStringConst
			}
			return ret.Results[0]
		}
		return retResult(ret, i)
	}
	type row struct {
		delta int64 // printed hour = hour + delta (when sym) or constant
		sym   bool
		konst int64
		sfx   string
	}
	classify := func(b *ssa.BasicBlock) string {
		// which hour class does the block belong to, given guards on t.hour; 24h -> "24"
		eq := map[int64]bool{}
		neq := map[int64]bool{}
		gt12, le12, ge12, lt12 := false, false, false, false
		is24 := false
		for _, g := range guardsOf(b) {
			if _, fld := fieldLoad(g.Cond); fld == "Use24HourClock" && g.Pol {
				is24 = true
			}
			bo, ok := g.Cond.(*ssa.BinOp)
			if !ok {
				continue
			}
			_, fld := fieldLoad(bo.X)
			k, isK := constInt(bo.Y)
			if fld != "hour" || !isK {
				continue
			}
			switch {
			case bo.Op == token.EQL && g.Pol:
				eq[k] = true
			case bo.Op == token.EQL && !g.Pol:
				neq[k] = true
			case bo.Op == token.GTR && k == 12 && g.Pol:
				gt12 = true
			case bo.Op == token.GTR && k == 12 && !g.Pol:
				le12 = true
			case bo.Op == token.GEQ && k == 13 && g.Pol:
				gt12 = true
			case bo.Op == token.GEQ && k == 13 && !g.Pol:
				le12 = true
			case bo.Op == token.GEQ && k == 12 && g.Pol:
				ge12 = true
			case bo.Op == token.GEQ && k == 12 && !g.Pol:
				lt12 = true
			case bo.Op == token.LSS && k == 12 && g.Pol:
				lt12 = true
			case bo.Op == token.LSS && k == 12 && !g.Pol:
				ge12 = true
			}
		}
		if ge12 && neq[12] {
			gt12 = true
		}
		if lt12 {
			le12 = true
			neq[12] = true
		}
		switch {
		case is24:
			return "24h"
		case eq[12]:
			return "12"
		case eq[0]:
			return "0"
		case gt12:
			return "13-23"
		case le12 && neq[12] && neq[0]:
			return "1-11"
		}
		return "?"
	}
	want := map[string]row{
		"0":     {konst: 12, sfx: "am"},
		"1-11":  {sym: true, delta: 0, sfx: "am"},
		"12":    {konst: 12, sfx: "pm"},
		"13-23": {sym: true, delta: -12, sfx: "pm"},
		"24h":   {sym: true, delta: 0, sfx: ""},
	}
	seen := map[string]bool{}
	for _, ret := range returnsOf(pr) {
		cls := classify(ret.Block())
		w, known := want[cls]
		if !known {
			r.bad(rule, "print:"+cls, p.instrPos(ret), "a 12-hour printing case that is none of {0, 1-11, 12, 13-23}")
			continue
		}
		seen[cls] = true
		sfx, _ := constString(retPart(ret, 1))
		pl := polyOf(retPart(ret, 0))
		good := sfx == w.sfx
		if w.sym {
			good = good && len(pl.Terms) == 1 && pl.C == w.delta
			for k, c := range pl.Terms {
				if c != 1 || !strings.HasSuffix(k, ".hour") {
					good = false
				}
			}
		} else {
			good = good && pl.isConst() && pl.C == w.konst
		}
		r.check(good, rule, "print:"+cls, p.instrPos(ret), fmt.Sprintf("hour class %s prints as %s%s", cls, describeRow(w.sym, w.delta, w.konst), w.sfx), fmt.Sprintf("hour class %s prints as (%s, %q): reading it back gives a different time", cls, pl.String(), sfx))
	}
	for cls := range want {
		r.check(seen[cls], rule, "print-row:"+cls, p.pos(pr.Pos()), "case present", "ToString has no case for hour class "+cls)
	}
	// reading: am && hour == 12 -> 0 ; pm && hour < 12 -> hour+12 ; range 1..12 enforced
	rd := p.fn("klog", "NewTimeFromString")
	if !r.anchorFn(rule, rd, "klog.NewTimeFromString") {
		return
	}
	// the hour passed to newTime comes about in several ways (assignments under ifs, or the
	// returns of a conversion helper): collect them with the conditions they depend on
	var okAm, okPm, okRange bool
	eachInstrIn(withAnons(rd), func(in ssa.Instruction) {
		// range check: hour < 1 || hour > 12 -> error
		if iff, ok := in.(*ssa.If); ok {
			if bo, ok := normCmp(iff.Cond); ok {
				k, isK := constInt(bo.Y)
				// hour > 12 / hour < 1, or their complements hour <= 12 / hour >= 1 (De Morgan),
				// or the same bounds spelled with the neighbouring constant
				if isK && ((bo.Op == token.GTR && k == 12) || (bo.Op == token.LSS && k == 1) ||
					(bo.Op == token.LEQ && k == 12) || (bo.Op == token.GEQ && k == 1) ||
					(bo.Op == token.GEQ && k == 13) || (bo.Op == token.LEQ && k == 0) ||
					(bo.Op == token.LSS && k == 13) || (bo.Op == token.GTR && k == 0)) {
					okRange = true
				}
			}
		}
	})
	newTimeFn := p.fn("klog", "newTime")
	for _, nt := range callsTo(rd, newTimeFn) {
		for _, row := range valueRows(nt.Common().Args[0], 0, map[ssa.Value]bool{}) {
			am, pm, eq12, lt12 := false, false, false, false
			for _, g := range row.guards {
				bo, ok := normCmp(g.Cond)
				if !ok {
					continue
				}
				op := bo.Op
				if !g.Pol {
					inv, known := map[token.Token]token.Token{token.LSS: token.GEQ, token.GEQ: token.LSS, token.GTR: token.LEQ, token.LEQ: token.GTR, token.EQL: token.NEQ, token.NEQ: token.EQL}[op]
					if !known {
						continue
					}
					op = inv
				}
				if s, isS := constString(bo.Y); isS && op == token.EQL {
					if s == "am" {
						am = true
					}
					if s == "pm" {
						pm = true
					}
				}
				if k, isK := constInt(bo.Y); isK {
					switch {
					case k == 12 && (op == token.EQL || op == token.GEQ), k == 11 && op == token.GTR:
						eq12 = true // hour <= 12 is established before, so >= 12 means == 12
					case k == 12 && op == token.LSS, k == 11 && op == token.LEQ:
						lt12 = true
					}
				}
			}
			if k, isK := constInt(row.val); isK && k == 0 && am && eq12 {
				okAm = true
			}
			pl := polyOf(row.val)
			if pm && lt12 && pl.C == 12 && len(pl.Terms) == 1 {
				okPm = true
			}
		}
	}
	r.check(okAm, rule, "read:12am", p.pos(rd.Pos()), "12am reads as hour 0", "12am is not read as hour 0")
	r.check(okPm, rule, "read:pm", p.pos(rd.Pos()), "1pm..11pm read as hour+12", "1pm..11pm are not read as hour+12")
	r.check(okRange, rule, "read:range", p.pos(rd.Pos()), "12-hour notation requires an hour of 1..12", "12-hour notation does not restrict the hour to 1..12")
}

func describeRow(sym bool, delta, konst int64) string {
	if !sym {
		return fmt.Sprint(konst)
	}
	if delta == 0 {
		return "hour"
	}
	return fmt.Sprintf("hour%+d", delta)
}

// ruleP16Plus: Time.Plus builds newTime(mins/60, mins%60, shift, format) from the (re-based)
// offset, and the re-basing adds/subtracts exactly one day per shift.
func ruleP16Plus(p *Prog, r *Report) {
	const rule = "P16-plus"
	f := p.method("klog", "time", "Plus")
	nt := p.fn("klog", "newTime")
	if !r.anchorFn(rule, f, "time.Plus") || !r.anchorFn(rule, nt, "klog.newTime") {
		return
	}
	cs := callsTo(f, nt)
	if len(cs) == 0 {
		r.bad(rule, "newTime", p.pos(f.Pos()), "Time.Plus does not build its result with newTime")
		return
	}
	// one call that is handed the selected minute count and shift, or one call per shift
	type plusRow struct{ mins, shift ssa.Value }
	var rows []plusRow
	a := cs[0].Common().Args
	for _, c := range cs {
		ca := c.Common().Args
		q, ok1 := strip(ca[0]).(*ssa.BinOp)
		m, ok2 := strip(ca[1]).(*ssa.BinOp)
		good := ok1 && ok2 && q.Op == token.QUO && m.Op == token.REM && sameValue(q.X, m.X)
		if good {
			k1, _ := constInt(q.Y)
			k2, _ := constInt(m.Y)
			good = k1 == 60 && k2 == 60
		}
		key := "split"
		if len(cs) > 1 {
			key = fmt.Sprintf("split@%s", describeConst(ca[2]))
		}
		r.check(good, rule, key, p.instrPos(c), "result = newTime(mins/60, mins%60, shift, own format)", "Time.Plus does not split one and the same minute count into /60 and %60")
		if !good {
			return
		}
		mins, isPhi := strip(q.X).(*ssa.Phi)
		shift, isPhi2 := strip(ca[2]).(*ssa.Phi)
		switch {
		case isPhi && isPhi2 && mins.Block() == shift.Block():
			for i := range mins.Edges {
				rows = append(rows, plusRow{mins.Edges[i], shift.Edges[i]})
			}
		case !isPhi2:
			rows = append(rows, plusRow{q.X, ca[2]})
		default:
			r.undecided(rule, "rebase", p.instrPos(c), "minutes and day shift are not selected together")
			return
		}
		// format preserved
		_, fld := fieldLoad(ca[3])
		r.check(fld == "format", rule, "format", p.instrPos(c), "the time's own format is kept", "Time.Plus does not keep the time's format")
	}
	okAll := true
	var base ssa.Value
	for _, rw := range rows {
		s, isK := constInt(rw.shift)
		if !isK {
			// `shift--` on a variable that holds 0 is 0 - 1 in SSA, not a constant
			if sp := polyOf(rw.shift); sp.isConst() {
				s, isK = sp.C, true
			}
		}
		if !isK {
			okAll = false
			continue
		}
		pl := polyOf(rw.mins)
		if len(pl.Terms) != 1 {
			okAll = false
			continue
		}
		for k, c := range pl.Terms {
			if c != 1 {
				okAll = false
			}
			if base == nil {
				base = pl.leafV[k]
			} else if leafKey(base) != k {
				okAll = false
			}
		}
		if pl.C != -1440*s {
			okAll = false
		}
	}
	// every shift a sum can need is there: yesterday, today, tomorrow
	seenShift := map[int64]bool{}
	for _, rw := range rows {
		if sp := polyOf(rw.shift); sp.isConst() {
			seenShift[sp.C] = true
		}
	}
	if !(seenShift[-1] && seenShift[0] && seenShift[1]) {
		okAll = false
	}
	r.check(okAll, rule, "rebase", p.instrPos(cs[0]), "for shift s the minute count is the total offset minus 1440*s", "the minute count and the day shift of Time.Plus do not re-base the offset by exactly one day per shift")
	// the total offset is MidnightOffset().Plus(d).InMinutes()
	okBase := false
	if base != nil {
		if n, recv, _, _ := methodCall(base); n == "InMinutes" {
			if n2, recv2, args2, _ := methodCall(recv); n2 == "Plus" && len(args2) == 1 && strip(args2[0]) == ssa.Value(f.Params[1]) {
				if n3, recv3, _, _ := methodCall(recv2); n3 == "MidnightOffset" && strip(recv3) == ssa.Value(f.Params[0]) {
					okBase = true
				}
			}
		}
	}
	r.check(okBase, rule, "offset", p.pos(f.Pos()), "total offset = own midnight offset + d", "the offset Time.Plus starts from is not MidnightOffset().Plus(d)")
	// the range test must not reject representable results: [-1440, 2879] minutes
	for _, b := range f.Blocks {
		iff, ok := b.Instrs[len(b.Instrs)-1].(*ssa.If)
		if !ok {
			continue
		}
		bo, ok := iff.Cond.(*ssa.BinOp)
		if !ok || base == nil || !sameValue(bo.X, base) {
			continue
		}
		kp := polyOf(bo.Y)
		if !kp.isConst() {
			continue
		}
		k := kp.C
		// does the true edge lead to the error return?
		toErr := false
		for rb := range reachableFrom(b.Succs[0], nil) {
			if ret, isRet := rb.Instrs[len(rb.Instrs)-1].(*ssa.Return); isRet && isNilConst(retResult(ret, 0)) && rb.Dominates(rb) {
				if b.Succs[0].Dominates(rb) || b.Succs[0] == rb || len(rb.Preds) > 0 && reachesOnlyError(b.Succs[0]) {
					toErr = true
				}
			}
		}
		if !toErr {
			continue
		}
		lo, hi := int64(-1440), int64(2879)
		rejectsValid := false
		switch bo.Op {
		case token.GEQ:
			rejectsValid = k <= hi
		case token.GTR:
			rejectsValid = k < hi
		case token.LSS:
			rejectsValid = k > lo
		case token.LEQ:
			rejectsValid = k >= lo
		}
		r.check(!rejectsValid, rule, fmt.Sprintf("bounds:%s%d", bo.Op, k), p.instrPos(iff), "the range test rejects no result between the start of yesterday and the end of tomorrow", fmt.Sprintf("the range test (offset %s %d -> error) rejects a representable result", bo.Op, k))
	}
	// … and it refuses on nothing else: every error return of Plus is decided by tests of the
	// resulting offset (a test of the operand — "no point in adding two days or more" — refuses
	// sums that land inside the representable window, `<0:00` + 48h = `0:00>`)
	for i, ret := range returnsOf(f) {
		if len(ret.Results) != 2 || !isNilConst(retResult(ret, 0)) {
			continue
		}
		if _, isCall := ret.Results[1].(*ssa.Extract); isCall {
			continue // newTime's own verdict
		}
		other := ""
		for _, g := range guardsOf(ret.Block()) {
			bo, isCmp := normCmp(g.Cond)
			if isCmp && base != nil && (sameValue(bo.X, base) || sameValue(bo.Y, base) || strip(bo.X) == strip(base) || strip(bo.Y) == strip(base)) {
				continue
			}
			if ph, isPhi := g.Cond.(*ssa.Phi); isPhi {
				if alts, okA := truthAlts(ph, 0); okA && len(alts) > 0 {
					continue // the `a || b` of two offset tests; its atoms are in the list as well
				}
			}
			other = g.Cond.String()
		}
		r.check(other == "", rule, fmt.Sprintf("refusal#%d", i), p.instrPos(ret), "the addition is refused on tests of the resulting offset only", "Time.Plus refuses the addition on a condition that is not a test of the resulting offset ("+other+"): sums that land between the start of yesterday and the end of tomorrow are refused")
	}
	_ = a
}

// reachesOnlyError: every return reachable from b returns a nil first result.
func reachesOnlyError(b *ssa.BasicBlock) bool {
	ok := false
	for rb := range reachableFrom(b, nil) {
		if ret, isRet := rb.Instrs[len(rb.Instrs)-1].(*ssa.Return); isRet {
			if !isNilConst(retResult(ret, 0)) {
				return false
			}
			ok = true
		}
	}
	return ok
}

// ruleP16Fold: 24:00 is folded to 0:00 of the following day exactly for times that are not
// already shifted to tomorrow.
func ruleP16Fold(p *Prog, r *Report) {
	const rule = "P16-fold"
	f := p.fn("klog", "newTime")
	if !r.anchorFn(rule, f, "klog.newTime") {
		return
	}
	hour, minute, shift := f.Params[0], f.Params[1], f.Params[2]
	// what newTime validates as the hour (civil.Time.Hour) and what it stores as the day shift
	var hv, sv, hourStored ssa.Value
	var at, hourAt ssa.Instruction
	// (also where the validation sits in a private helper of newTime)
	eachVInstr(f, func(in ssa.Instruction) {
		st, ok := in.(*ssa.Store)
		if !ok {
			return
		}
		fa, ok := st.Addr.(*ssa.FieldAddr)
		if !ok {
			return
		}
		switch {
		case fieldName(fa) == "Hour" && typeNameOf(fa.X.Type()) == "Time":
			hv, at = st.Val, st
		case fieldName(fa) == "dayShift" && typeNameOf(fa.X.Type()) == "time":
			sv = st.Val
		case fieldName(fa) == "hour" && typeNameOf(fa.X.Type()) == "time":
			hourStored, hourAt = st.Val, st
		}
	})
	if hv == nil && hourStored != nil {
		// validated by an explicit range test instead of civil.Time: the hour that is stored
		hv, at = hourStored, hourAt
	}
	if hv == nil || sv == nil {
		r.undecided(rule, "fold", p.pos(f.Pos()), "newTime does not build civil.Time{Hour: …} and time{dayShift: …}")
		return
	}
	// the ways the hour and the shift come about (assignments under an if, or a helper's returns)
	isFold := func(gs []Guard) (fold bool, exact bool, extra string) {
		h24, m0, sh := false, false, false
		for _, g := range gs {
			bo, ok := normCmp(g.Cond)
			if !ok {
				if ph, isPhi := g.Cond.(*ssa.Phi); isPhi && g.Pol {
					// the value of `a && b` kept in a variable: its conjuncts are in the list
					if alts, okA := truthAlts(ph, 0); okA && len(alts) == 1 {
						continue
					}
				}
				if g.Pol {
					extra = g.Cond.String()
				}
				continue
			}
			op := bo.Op
			if !g.Pol {
				// the negative edge of one of the three tests belongs to a way that is not the fold
				continue
			}
			k2, isK2 := constInt(bo.Y)
			if !isK2 {
				extra = bo.X.Name() + " " + op.String() + " " + bo.Y.Name()
				continue
			}
			switch strip(bo.X) {
			default:
				extra = fmt.Sprintf("%s %s %d", bo.X.Name(), op, k2)
			case ssa.Value(hour):
				h24 = op == token.EQL && k2 == 24
				fold = fold || h24
			case ssa.Value(minute):
				m0 = op == token.EQL && k2 == 0
			case ssa.Value(shift):
				sh = (op == token.LEQ && k2 == 0) || (op == token.LSS && k2 == 1)
			}
		}
		return fold, h24 && m0 && sh, extra
	}
	found := false
	for _, row := range valueRows(hv, 0, map[ssa.Value]bool{}) {
		if k, isK := constInt(row.val); isK && k == 0 {
			found = true
			_, exact, extra := isFold(row.guards)
			r.check(extra == "", rule, "guard:only", p.instrPos(at), "nothing else decides about the fold", "the 24:00 fold additionally depends on "+extra+": 24:00 is no longer folded for every time it applies to (e.g. a sum that lands on midnight in 12-hour notation)")
			r.check(exact, rule, "guard", p.instrPos(at), "24:00 is folded exactly when hour == 24, minute == 0 and the time is not shifted to tomorrow", "the 24:00 fold does not apply exactly to hour 24, minute 0, day shift <= 0 (e.g. <24:00 is no longer accepted)")
			continue
		}
		r.check(strip(row.val) == ssa.Value(hour), rule, "hour:else", p.instrPos(at), "otherwise the hour is the one given", "newTime validates an hour that is neither the given one nor the folded 0")
	}
	if !found {
		r.bad(rule, "fold", p.pos(f.Pos()), "newTime has no 24:00 fold: 24:00 and <24:00 are rejected")
		return
	}
	okShift, okElse := false, true
	for _, row := range valueRows(sv, 0, map[ssa.Value]bool{}) {
		pl := polyOf(row.val)
		isShift := len(pl.Terms) == 1 && pl.Terms["param:"+shift.Name()] == 1
		if fold, exact, _ := isFold(row.guards); fold {
			if exact && isShift && pl.C == 1 {
				okShift = true
			}
			continue
		}
		if !isShift || pl.C != 0 {
			okElse = false
		}
	}
	r.check(okShift && okElse, rule, "effect", p.instrPos(at), "the fold yields 0:00 of the following day (shift + 1); otherwise the shift is the one given", "the 24:00 fold does not move the time to 0:00 of the following day")
}

// remainingShape: d == sgn*(len(x.Chars) - x.PointerPosition) + constant for one Parseable x.
func remainingShape(d *Poly) (sgn int64, ok bool) {
	if len(d.Terms) != 2 {
		return 0, false
	}
	var lenKey, posKey string
	for k := range d.Terms {
		switch {
		case strings.HasPrefix(k, "len(field:") && strings.HasSuffix(k, ".Chars)"):
			lenKey = k
		case strings.HasPrefix(k, "field:") && strings.HasSuffix(k, ".PointerPosition"):
			posKey = k
		}
	}
	if lenKey == "" || posKey == "" {
		return 0, false
	}
	if strings.TrimSuffix(strings.TrimPrefix(lenKey, "len(field:"), ".Chars)") != strings.TrimSuffix(strings.TrimPrefix(posKey, "field:"), ".PointerPosition") {
		return 0, false
	}
	a, b := d.Terms[lenKey], d.Terms[posKey]
	if a != -b || (a != 1 && a != -1) {
		return 0, false
	}
	return a, true
}

// provenWithin: the guards confine v to exactly lo..hi (comparisons of v with constants).
func provenWithin(gs []Guard, v ssa.Value, lo, hi int64) bool {
	gotLo, gotHi := false, false
	for _, g := range gs {
		bo, ok := normCmp(g.Cond)
		if !ok {
			continue
		}
		k, isK := constInt(bo.Y)
		if !isK || !(sameValue(bo.X, v) || strip(bo.X) == strip(v)) {
			continue
		}
		op := bo.Op
		if !g.Pol {
			inv := map[token.Token]token.Token{token.LSS: token.GEQ, token.GEQ: token.LSS, token.GTR: token.LEQ, token.LEQ: token.GTR}
			o2, known := inv[op]
			if !known {
				continue
			}
			op = o2
		}
		switch {
		case op == token.GEQ && k == lo, op == token.GTR && k == lo-1:
			gotLo = true
		case op == token.LEQ && k == hi, op == token.LSS && k == hi+1:
			gotHi = true
		}
	}
	return gotLo && gotHi
}

// simTimeCmp runs f — a function of two times a and b that answers with a bool (1/0) or an int —
// under the assumption sign = sgn(offset(a) - offset(b)), where offset is
// MidnightOffset().InMinutes(). Calls of module functions that are handed a and/or b are run the
// same way. ok=false when something else than such comparisons, constants and calls decides.
func simTimeCmp(f *ssa.Function, a, b ssa.Value, sign int64, depth int) (int64, bool) {
	if depth > 3 || len(f.Blocks) == 0 {
		return 0, false
	}
	unwrap := func(v ssa.Value) ssa.Value {
		for i := 0; i < 6; i++ {
			switch x := v.(type) {
			case *ssa.MakeInterface:
				v = x.X
			case *ssa.ChangeInterface:
				v = x.X
			case *ssa.ChangeType:
				v = x.X
			default:
				return v
			}
		}
		return v
	}
	who := func(v ssa.Value) int { // 1 = a, 2 = b, 0 = neither
		switch unwrap(v) {
		case a:
			return 1
		case b:
			return 2
		}
		return 0
	}
	offsetOf := func(v ssa.Value) int {
		c, ok := v.(*ssa.Call)
		if !ok {
			return 0
		}
		n, recv, args, _ := methodCallOf(c)
		if n != "InMinutes" || len(args) != 0 || recv == nil {
			return 0
		}
		c2, ok := recv.(*ssa.Call)
		if !ok {
			return 0
		}
		n2, recv2, args2, _ := methodCallOf(c2)
		if n2 != "MidnightOffset" || len(args2) != 0 || recv2 == nil {
			return 0
		}
		return who(recv2)
	}
	phiVal := map[*ssa.Phi]ssa.Value{}
	var eval func(v ssa.Value, d int) (int64, bool)
	eval = func(v ssa.Value, d int) (int64, bool) {
		if d > 10 {
			return 0, false
		}
		if bv, isB := constBool(v); isB {
			if bv {
				return 1, true
			}
			return 0, true
		}
		if k, isK := constInt(v); isK {
			return k, true
		}
		switch x := v.(type) {
		case *ssa.UnOp:
			if x.Op == token.NOT {
				y, ok := eval(x.X, d+1)
				return 1 - y, ok
			}
			if x.Op == token.SUB {
				y, ok := eval(x.X, d+1)
				return -y, ok
			}
		case *ssa.Phi:
			if e, known := phiVal[x]; known {
				return eval(e, d+1)
			}
		case *ssa.Call:
			g := rawStaticCallee(x)
			if g == nil || gp == nil || !gp.inMod(g) || len(g.Blocks) == 0 {
				return 0, false
			}
			var na, nb ssa.Value
			for i, arg := range x.Call.Args {
				if i >= len(g.Params) {
					break
				}
				switch who(arg) {
				case 1:
					na = g.Params[i]
				case 2:
					nb = g.Params[i]
				}
			}
			if na == nil || nb == nil {
				return 0, false
			}
			return simTimeCmp(g, na, nb, sign, depth+1)
		case *ssa.BinOp:
			var l, rr int64
			if oa, ob := offsetOf(x.X), offsetOf(x.Y); oa != 0 && ob != 0 && oa != ob {
				l, rr = sign, 0
				if oa == 2 {
					l = -sign
				}
			} else {
				var ok1, ok2 bool
				l, ok1 = eval(x.X, d+1)
				rr, ok2 = eval(x.Y, d+1)
				if !ok1 || !ok2 {
					return 0, false
				}
			}
			res := false
			switch x.Op {
			case token.EQL:
				res = l == rr
			case token.NEQ:
				res = l != rr
			case token.LSS:
				res = l < rr
			case token.LEQ:
				res = l <= rr
			case token.GTR:
				res = l > rr
			case token.GEQ:
				res = l >= rr
			default:
				return 0, false
			}
			if res {
				return 1, true
			}
			return 0, true
		}
		return 0, false
	}
	cur := f.Blocks[0]
	var prev *ssa.BasicBlock
	for steps := 0; steps < 64; steps++ {
		for _, in := range cur.Instrs {
			ph, isPhi := in.(*ssa.Phi)
			if !isPhi {
				break
			}
			for i, pb := range cur.Preds {
				if pb == prev {
					phiVal[ph] = ph.Edges[i]
				}
			}
		}
		switch t := cur.Instrs[len(cur.Instrs)-1].(type) {
		case *ssa.Return:
			if len(t.Results) != 1 {
				return 0, false
			}
			return eval(t.Results[0], 0)
		case *ssa.If:
			c, ok := eval(t.Cond, 0)
			if !ok {
				return 0, false
			}
			prev = cur
			if c != 0 {
				cur = cur.Succs[0]
			} else {
				cur = cur.Succs[1]
			}
		case *ssa.Jump:
			prev, cur = cur, cur.Succs[0]
		default:
			return 0, false
		}
	}
	return 0, false
}
