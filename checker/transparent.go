package main

// Helper transparency.
//
// Rules are anchored in named functions of klog. A maintainer who extracts a block into a new
// private helper, turns a closure into a method or passes a captured value as a parameter does
// not change behaviour, and must not change a verdict. The analysis therefore looks THROUGH
// module functions that no rule looks up by name ("transparent helpers"):
//   - value resolution (strip) continues from a call of such a helper to the value it returns (if
//     it has a single return statement) and from one of its parameters to the argument of its
//     call site (its only static call site, or the call through which it was last entered);
//   - the functions a rule scans (withAnons) include the helpers called from them;
//   - the conditions under which a block runs (guardsOf) include those of the helper's call site;
//   - a bound-method value (p.parseBatch) denotes the method.
// Which functions are anchors is determined by a warm-up pass that runs every rule once and
// records each function looked up through Prog.fn / Prog.method; the set is the same whichever
// properties are selected.

import (
	"go/token"
	"sort"
	"strings"
	"unicode"

	"golang.org/x/tools/go/ssa"
)

type helperTab struct {
	enabled bool
	sites   map[*ssa.Function][]ssa.CallInstruction // static call sites per (origin) callee
	anchors map[*ssa.Function]bool
	ctx     map[*ssa.Function]ssa.CallInstruction // call through which a helper was last entered
	pinned  map[*ssa.Function]bool                // ctx fixed by a vcall: not overwritten while resolving
	memo    map[*ssa.Function]bool
}

var ht = &helperTab{sites: map[*ssa.Function][]ssa.CallInstruction{}, anchors: map[*ssa.Function]bool{}, ctx: map[*ssa.Function]ssa.CallInstruction{}, pinned: map[*ssa.Function]bool{}, memo: map[*ssa.Function]bool{}}

var gp *Prog

func (p *Prog) initHelperSites() {
	gp = p
	// generic bodies are not among the reachable functions (only their instances are), but rules
	// anchored by name analyse them: their call sites count as well
	fns := append([]*ssa.Function{}, p.srcFns...)
	seen := map[*ssa.Function]bool{}
	for _, f := range p.srcFns {
		seen[f] = true
	}
	var origins []*ssa.Function
	for f := range p.allFns {
		if o := f.Origin(); o != nil && !seen[o] && len(o.Blocks) > 0 && p.inMod(o) {
			seen[o] = true
			origins = append(origins, o)
		}
	}
	sort.Slice(origins, func(i, j int) bool { return origins[i].Pos() < origins[j].Pos() })
	for _, o := range origins {
		for _, g := range plainWithAnons(o) {
			if !seen[g] || g == o {
				seen[g] = true
				fns = append(fns, g)
			}
		}
	}
	for _, f := range fns {
		for _, b := range f.Blocks {
			for _, in := range b.Instrs {
				c, ok := in.(ssa.CallInstruction)
				if !ok {
					continue
				}
				if g := rawStaticCallee(c); g != nil {
					ht.sites[originFn(g)] = append(ht.sites[originFn(g)], c)
				}
			}
		}
	}
}

// rawStaticCallee: like staticCallee but without value resolution (no recursion into strip).
func rawStaticCallee(c ssa.CallInstruction) *ssa.Function {
	cc := c.Common()
	if cc.IsInvoke() {
		return nil
	}
	switch v := cc.Value.(type) {
	case *ssa.Function:
		return boundTarget(v)
	case *ssa.MakeClosure:
		return boundTarget(v.Fn.(*ssa.Function))
	}
	return nil
}

// boundTarget maps a bound-method wrapper (x.m as a value) or a thunk to the method it calls.
func boundTarget(f *ssa.Function) *ssa.Function {
	for hops := 0; hops < 4; hops++ {
		if f == nil || f.Synthetic == "" || !(strings.Contains(f.Synthetic, "bound method") || strings.Contains(f.Synthetic, "thunk") || strings.Contains(f.Synthetic, "instantiation wrapper")) {
			return f
		}
		var next *ssa.Function
		for _, b := range f.Blocks {
			for _, in := range b.Instrs {
				if c, ok := in.(ssa.CallInstruction); ok && !c.Common().IsInvoke() {
					if g, isF := c.Common().Value.(*ssa.Function); isF && next == nil {
						next = g
					}
				}
			}
		}
		if next == nil {
			return f
		}
		f = next
	}
	return f
}

func markAnchor(f *ssa.Function) {
	if f != nil {
		ht.anchors[originFn(f)] = true
		delete(ht.memo, originFn(f))
	}
}

// isHelper: a module function that the analysis looks through.
func isHelper(g *ssa.Function) bool {
	if !ht.enabled || g == nil || gp == nil {
		return false
	}
	g = originFn(g)
	if v, ok := ht.memo[g]; ok {
		return v
	}
	v := func() bool {
		if g.Synthetic != "" || len(g.Blocks) == 0 || ht.anchors[g] || !gp.inMod(g) {
			return false
		}
		if g.Parent() != nil {
			// a local function (`f := func(…) {…}`) that is called in several places and used for
			// nothing else is a helper like any other; a literal that is called on the spot (one
			// site) is part of its surrounding function and handled there
			return localFunction(g)
		}
		name := g.Name()
		if ruleNames[name] {
			// identified by name in some rule — when it lives in a package in which the tree the
			// rules were written against has a function of that name
			pkgs, known := ruleNamePkgs[name]
			if !known {
				return false
			}
			pp := strings.TrimPrefix(strings.TrimPrefix(pkgPathOfFn(g), modPath), "/")
			if pp == "" {
				pp = "."
			}
			for _, q := range pkgs {
				if q == pp {
					return false
				}
			}
		}
		if name == "init" || strings.HasPrefix(name, "init#") || name == "main" {
			return false
		}
		r := []rune(name)
		if len(r) == 0 || unicode.IsUpper(r[0]) {
			return false
		}
		sites := ht.sites[g]
		if len(sites) == 0 {
			return false
		}
		for _, s := range sites {
			for h := s.Parent(); h != nil; h = h.Parent() {
				if originFn(h) == g {
					return false // recursive
				}
			}
		}
		return true
	}()
	ht.memo[g] = v
	return v
}

// localFunction: the function literal g is created once, and every use of that value is a
// direct call of it — at least two of them.
func localFunction(g *ssa.Function) bool {
	parent := g.Parent()
	if parent == nil {
		return false
	}
	n, calls := 0, 0
	for _, b := range parent.Blocks {
		for _, in := range b.Instrs {
			mc, ok := in.(*ssa.MakeClosure)
			if !ok || mc.Fn != ssa.Value(g) {
				continue
			}
			n++
			for _, ref := range *mc.Referrers() {
				c, isCall := ref.(ssa.CallInstruction)
				if !isCall || c.Common().Value != ssa.Value(mc) {
					if _, isDbg := ref.(*ssa.DebugRef); isDbg {
						continue
					}
					return false
				}
				calls++
			}
		}
	}
	return n == 1 && calls >= 2
}

// helperCallSite: the call site relative to which parameters of helper g are resolved.
func helperCallSite(g *ssa.Function) ssa.CallInstruction {
	g = originFn(g)
	if ht.pinned[g] {
		return ht.ctx[g]
	}
	sites := ht.sites[g]
	if len(sites) == 1 {
		return sites[0]
	}
	if c := ht.ctx[g]; c != nil {
		return c
	}
	return nil
}

// singleReturn: the only return statement of g, or nil.
func singleReturn(g *ssa.Function) *ssa.Return {
	var ret *ssa.Return
	for _, b := range g.Blocks {
		if len(b.Instrs) == 0 {
			continue
		}
		if r, ok := b.Instrs[len(b.Instrs)-1].(*ssa.Return); ok {
			if ret != nil {
				return nil
			}
			ret = r
		}
	}
	return ret
}

// throughHelper: v is a parameter of a helper or (a component of) the result of a helper call;
// returns the value it stands for in the caller's terms.
func throughHelper(v ssa.Value) (ssa.Value, bool) {
	switch x := v.(type) {
	case *ssa.Parameter:
		g := x.Parent()
		if !isHelper(g) {
			// a function literal that is called on the spot, once: its parameter is the argument
			if g != nil && g.Parent() != nil && ht.enabled {
				if site := soleDirectCall(g); site != nil {
					for i, prm := range g.Params {
						if prm == x && i < len(site.Call.Args) {
							return site.Call.Args[i], true
						}
					}
				}
			}
			return nil, false
		}
		site := helperCallSite(g)
		if site == nil {
			// several call sites and no context: fine when they all pass the very same value
			sites := ht.sites[originFn(g)]
			for i, prm := range g.Params {
				if prm != x || len(sites) == 0 {
					continue
				}
				var common ssa.Value
				for _, s := range sites {
					if i >= len(s.Common().Args) {
						return nil, false
					}
					a := s.Common().Args[i]
					if common == nil {
						common = a
					} else if !plainSame(common, a) {
						return nil, false
					}
				}
				return common, common != nil
			}
			return nil, false
		}
		for i, prm := range g.Params {
			if prm == x && i < len(site.Common().Args) {
				return site.Common().Args[i], true
			}
		}
	case *ssa.Call:
		g := rawStaticCallee(x)
		if !isHelper(g) {
			return nil, false
		}
		if ret := singleReturn(g); ret != nil && len(ret.Results) == 1 {
			if !ht.pinned[originFn(g)] {
				ht.ctx[originFn(g)] = x
			}
			return ret.Results[0], true
		}
	case *ssa.UnOp:
		// the same read through a local variable: w := helper(…); … w.field …  (go/ssa keeps a
		// struct variable whose fields are selected in memory: alloc, one store of the call's
		// result, field address, load)
		if x.Op != token.MUL {
			return nil, false
		}
		fa, ok := x.X.(*ssa.FieldAddr)
		if !ok {
			return nil, false
		}
		a, ok := fa.X.(*ssa.Alloc)
		if !ok || a.Referrers() == nil {
			return nil, false
		}
		var whole ssa.Value
		for _, ref := range *a.Referrers() {
			switch y := ref.(type) {
			case *ssa.Store:
				if y.Addr != ssa.Value(a) || whole != nil {
					return nil, false
				}
				whole = y.Val
			case *ssa.FieldAddr:
				for _, r2 := range *y.Referrers() {
					if _, isLoad := r2.(*ssa.UnOp); !isLoad {
						if _, isDbg := r2.(*ssa.DebugRef); !isDbg {
							return nil, false // a field is written or its address escapes
						}
					}
				}
			case *ssa.DebugRef:
			default:
				return nil, false
			}
		}
		c, ok := whole.(*ssa.Call)
		if !ok {
			return nil, false
		}
		g := rawStaticCallee(c)
		if !isHelper(g) {
			return nil, false
		}
		if ret := singleReturn(g); ret != nil && len(ret.Results) == 1 {
			if fv, isLit := compositeLitField(ret.Results[0], fa.Field); isLit && fv != nil {
				if !ht.pinned[originFn(g)] {
					ht.ctx[originFn(g)] = c
				}
				return fv, true
			}
		}
	case *ssa.Field:
		// a field of the struct a helper hands back as one composite literal (several values
		// bundled into one result): the value stored into that field
		c, ok := x.X.(*ssa.Call)
		if !ok {
			return nil, false
		}
		g := rawStaticCallee(c)
		if !isHelper(g) {
			return nil, false
		}
		if ret := singleReturn(g); ret != nil && len(ret.Results) == 1 {
			if fv, isLit := compositeLitField(ret.Results[0], x.Field); isLit && fv != nil {
				if !ht.pinned[originFn(g)] {
					ht.ctx[originFn(g)] = c
				}
				return fv, true
			}
		}
	case *ssa.Extract:
		c, ok := x.Tuple.(*ssa.Call)
		if !ok {
			return nil, false
		}
		g := rawStaticCallee(c)
		if !isHelper(g) {
			return nil, false
		}
		if ret := singleReturn(g); ret != nil && x.Index < len(ret.Results) {
			if !ht.pinned[originFn(g)] {
				ht.ctx[originFn(g)] = c
			}
			return ret.Results[x.Index], true
		}
	}
	return nil, false
}

// soleDirectCall: the only place where the function literal g is created, when it is called
// right there (`func(x T) { … }(arg)`) and used for nothing else.
var soleCallMemo = map[*ssa.Function]*ssa.Call{}
var soleCallDone = map[*ssa.Function]bool{}

func soleDirectCall(g *ssa.Function) *ssa.Call {
	if soleCallDone[g] {
		return soleCallMemo[g]
	}
	soleCallDone[g] = true
	parent := g.Parent()
	if parent == nil {
		return nil
	}
	var site *ssa.Call
	n := 0
	for _, b := range parent.Blocks {
		for _, in := range b.Instrs {
			mc, ok := in.(*ssa.MakeClosure)
			if !ok || mc.Fn != ssa.Value(g) {
				continue
			}
			n++
			var refs []ssa.Instruction
			for _, ref := range *mc.Referrers() {
				if _, isDbg := ref.(*ssa.DebugRef); !isDbg {
					refs = append(refs, ref)
				}
			}
			if len(refs) != 1 {
				return nil
			}
			c, isCall := refs[0].(*ssa.Call)
			if !isCall || c.Call.Value != ssa.Value(mc) {
				return nil
			}
			site = c
		}
	}
	if n == 0 && len(g.FreeVars) == 0 {
		// a literal that captures nothing is used as the function value itself
		uses := 0
		for _, b := range parent.Blocks {
			for _, in := range b.Instrs {
				if _, isDbg := in.(*ssa.DebugRef); isDbg {
					continue
				}
				for _, op := range in.Operands(nil) {
					if op != nil && *op == ssa.Value(g) {
						uses++
						if c, isCall := in.(*ssa.Call); isCall && c.Call.Value == ssa.Value(g) {
							site = c
						} else {
							return nil
						}
					}
				}
			}
		}
		if uses == 1 && site != nil {
			soleCallMemo[g] = site
			return site
		}
		return nil
	}
	if n != 1 {
		return nil
	}
	soleCallMemo[g] = site
	return site
}

// helpersCalledFrom lists the transparent helpers called (statically) from fs, transitively.
func helpersCalledFrom(fs []*ssa.Function) []*ssa.Function {
	if !ht.enabled {
		return nil
	}
	seen := map[*ssa.Function]bool{}
	for _, f := range fs {
		seen[f] = true
	}
	var out []*ssa.Function
	work := append([]*ssa.Function{}, fs...)
	for depth := 0; len(work) > 0 && depth < 64; depth++ {
		f := work[0]
		work = work[1:]
		for _, b := range f.Blocks {
			for _, in := range b.Instrs {
				c, ok := in.(ssa.CallInstruction)
				if !ok {
					continue
				}
				g := rawStaticCallee(c)
				if g == nil || seen[g] || !isHelper(g) {
					continue
				}
				for _, h := range plainWithAnons(g) {
					if !seen[h] {
						seen[h] = true
						out = append(out, h)
						work = append(work, h)
					}
				}
			}
		}
	}
	return out
}

func plainWithAnons(f *ssa.Function) []*ssa.Function {
	out := []*ssa.Function{f}
	for _, a := range f.AnonFuncs {
		out = append(out, plainWithAnons(a)...)
	}
	return out
}

// vcall is a call of a target function as seen from a root function: either a call in the root
// (or its closures), or a call inside a transparent helper together with the chain of call sites
// through which the helper is entered from the root. run executes fn with that chain installed as
// the resolution context, so that strip maps the helper's parameters to THIS chain's arguments
// (a helper with several call sites is analysed once per call site).
type vcall struct {
	call  ssa.CallInstruction
	chain []ssa.CallInstruction // outermost first; empty for a direct call
}

func (v vcall) run(fn func()) {
	saved := map[*ssa.Function]ssa.CallInstruction{}
	for _, s := range v.chain {
		if g := rawStaticCallee(s); g != nil {
			g = originFn(g)
			saved[g] = ht.ctx[g]
			ht.ctx[g] = s
			ht.pinned[g] = true
		}
	}
	defer func() {
		for g, old := range saved {
			delete(ht.pinned, g)
			if old == nil {
				delete(ht.ctx, g)
			} else {
				ht.ctx[g] = old
			}
		}
	}()
	fn()
}

// where returns the block that stands for the call's position in the root: the outermost call
// site of the chain, or the call's own block.
func (v vcall) where() *ssa.BasicBlock {
	if len(v.chain) > 0 {
		return v.chain[0].Block()
	}
	return v.call.Block()
}

// virtualCallsTo enumerates the calls of target reachable from root through transparent helpers.
func virtualCallsTo(root *ssa.Function, target *ssa.Function) []vcall {
	var out []vcall
	var walk func(f *ssa.Function, chain []ssa.CallInstruction, depth int)
	walk = func(f *ssa.Function, chain []ssa.CallInstruction, depth int) {
		if depth > 4 {
			return
		}
		for _, g := range plainWithAnons(f) {
			if g != f && isHelper(g) {
				continue // a local function: entered through its calls
			}
			for _, b := range g.Blocks {
				for _, in := range b.Instrs {
					c, ok := in.(ssa.CallInstruction)
					if !ok {
						continue
					}
					callee := rawStaticCallee(c)
					if callee == nil {
						continue
					}
					if sameFn(callee, target) {
						out = append(out, vcall{c, append([]ssa.CallInstruction{}, chain...)})
						continue
					}
					if isHelper(callee) {
						walk(originFn(callee), append(append([]ssa.CallInstruction{}, chain...), c), depth+1)
					}
				}
			}
		}
	}
	walk(root, nil, 0)
	return out
}

// vinstr is an instruction of a root function or of a transparent helper reached from it,
// together with the chain of call sites (see vcall).
type vinstr struct {
	in    ssa.Instruction
	chain []ssa.CallInstruction
}

func (v vinstr) run(fn func()) { vcall{chain: v.chain}.run(fn) }

// virtualInstrs enumerates the instructions of root (without its closures) and, once per call
// chain, those of the transparent helpers it calls.
func virtualInstrs(root *ssa.Function) []vinstr {
	var out []vinstr
	var walk func(f *ssa.Function, chain []ssa.CallInstruction, depth int)
	walk = func(f *ssa.Function, chain []ssa.CallInstruction, depth int) {
		for _, b := range f.Blocks {
			for _, in := range b.Instrs {
				out = append(out, vinstr{in, chain})
				if c, ok := in.(ssa.CallInstruction); ok && depth < 4 {
					if callee := rawStaticCallee(c); callee != nil && isHelper(callee) {
						walk(originFn(callee), append(append([]ssa.CallInstruction{}, chain...), c), depth+1)
					}
				}
			}
		}
	}
	walk(root, nil, 0)
	return out
}

// blockIn: the block of f that stands for instruction in: its own block, or — when in lies in a
// transparent helper called (transitively) from f — the block of the call site in f.
func blockIn(f *ssa.Function, in ssa.Instruction) *ssa.BasicBlock {
	g := in.Parent()
	b := in.Block()
	for hops := 0; hops < 5 && g != nil && g != f; hops++ {
		if g.Parent() != nil && isHelper(g) {
			// a local function: the block of its call
			if site := helperCallSite(g); site != nil {
				b, g = site.Block(), site.Parent()
				continue
			}
		}
		top := g
		for top.Parent() != nil {
			top = top.Parent()
		}
		if top == f {
			return b // a closure of f: keep its own block
		}
		if !isHelper(top) {
			return b
		}
		site := helperCallSite(top)
		if site == nil {
			return b
		}
		b, g = site.Block(), site.Parent()
	}
	return b
}

// plainSame: the two values are the same SSA value or loads of the same variable cell.
func plainSame(a, b ssa.Value) bool {
	if a == b {
		return true
	}
	ua, ok1 := a.(*ssa.UnOp)
	ub, ok2 := b.(*ssa.UnOp)
	if ok1 && ok2 && ua.X == ub.X {
		return true
	}
	// the same captured variable seen from two closures of one function
	fa, okA := a.(*ssa.UnOp)
	fb, okB := b.(*ssa.UnOp)
	if okA && okB {
		if va, isA := fa.X.(*ssa.FreeVar); isA {
			if vb, isB := fb.X.(*ssa.FreeVar); isB {
				ba, bb := freeVarBinding(va), freeVarBinding(vb)
				return ba != nil && ba == bb
			}
		}
		if va, isA := fa.X.(*ssa.FreeVar); isA {
			if ba := freeVarBinding(va); ba != nil && ba == fb.X {
				return true
			}
		}
		if vb, isB := fb.X.(*ssa.FreeVar); isB {
			if bb := freeVarBinding(vb); bb != nil && bb == fa.X {
				return true
			}
		}
	}
	return false
}

// expandReturns lists the return statements that decide f's results: f's own, except that a
// return which merely forwards all results of a call to a transparent helper is replaced by the
// helper's returns (the helper's parameters then resolve through that call).
func expandReturns(f *ssa.Function) []*ssa.Return {
	var out []*ssa.Return
	var walk func(g *ssa.Function, depth int)
	walk = func(g *ssa.Function, depth int) {
		for _, ret := range plainReturnsOf(g) {
			var fwd *ssa.Call
			all := len(ret.Results) > 0
			for i, res := range ret.Results {
				var c *ssa.Call
				switch x := res.(type) {
				case *ssa.Extract:
					if cc, ok := x.Tuple.(*ssa.Call); ok && x.Index == i {
						c = cc
					}
				case *ssa.Call:
					if len(ret.Results) == 1 {
						c = x
					}
				}
				if c == nil || (fwd != nil && fwd != c) {
					all = false
					break
				}
				fwd = c
			}
			// only a direct `return h(...)`: the call sits in the block of the return itself (a
			// result that is tested first and then returned is not a mere forward)
			if all && fwd != nil && fwd.Block() != ret.Block() {
				all = false
			}
			if all && fwd != nil && depth < 3 {
				// (only helpers with one call site: the returns of a shared helper mean something
				// different at each of its call sites)
				if h := rawStaticCallee(fwd); h != nil && isHelper(h) && len(ht.sites[originFn(h)]) == 1 {
					walk(originFn(h), depth+1)
					continue
				}
			}
			out = append(out, ret)
		}
	}
	walk(f, 0)
	return out
}

// eachVInstr is eachInstr over root and the transparent helpers it calls; fn runs with the call
// chain of the instruction installed, so that helper parameters resolve to that chain's arguments.
func eachVInstr(root *ssa.Function, fn func(ssa.Instruction)) {
	for _, vi := range virtualInstrs(root) {
		vi := vi
		vi.run(func() { fn(vi.in) })
	}
}
