package main

// C14 — tags; C20 — JSON output.

import (
	"fmt"
	"go/token"
	"go/types"
	"strings"

	"golang.org/x/tools/go/ssa"
)

func init() {
	register(&propSpec{
		id:    "C14",
		level: "other",
		explain: "Decided on source constants and the SSA program: (P14-lang) the tag pattern is language-equivalent to the specification's tag syntax #name[=value] with name/unquoted value over letters, digits, _ and -, and values quoted by matching \" or ' on one line; the unquoted-value pattern equals [\\p{L}\\d_-]+; " +
			"(P14-lower) the stored tag name is lower-cased and the value is not; (P14-barename) Put also registers the bare name and Contains is a lookup of the very tag; (P14-merge / P14-once) per entry the tag set is Merge(record tags, entry tags), the aggregation iterates the keys of that set and adds the entry's duration once per key; Summary.Tags folds over all matches of all summary lines; tag filters test set membership of every queried tag. " +
			"Not covered: quote stripping of values, klog tags rendering, --tag decoding beyond NewTagFromString, leftmost-first alternation effects of the pattern.",
		rules:   []ruleFn{ruleP14Lang, ruleP14Unquote, ruleP14Model, ruleP14Aggregate, ruleP14SortKey, ruleP14AggKey, ruleP13Reduce},
		trusted: []string{"reference language for tags transcribed from Specification.md: #[\\p{L}\\d_-]+(=(\"[^\"]*\"|'[^']*'|[\\p{L}\\d_-]*))?"},
	})
	register(&propSpec{
		id:    "C20",
		level: "other",
		explain: "Decided on the SSA program: (P20-xor) ToJson sets exactly one of records and errors: on errs == nil the errors field is nil and records come from a function that never returns nil, otherwise records is nil and errors are the rendered errors; Json.Run passes parser errors only when ReadInputs returned them; " +
			"(P20-fields) every field of the record/entry views is computed from the accessor the format documents (date, summary, total_mins = Total(r), should_total_mins, diff_mins = Diff(should,total), entry total = e.Duration(), start/end notation and midnight offsets, type constant per entry kind, tags of the matching summary), one view per record/entry in order; " +
			"(P20-run) a parser-errors failure prints one error document and exits 0, any other failure is returned, success applies --now, filter and sort and prints one document; every path that returns nil has printed exactly one document; (P20-errfields = P10-accessors) error objects carry the terminal report's line/column/length/message; (P20-encode) the string returned is the encoder's buffer after one Encode of the envelope. " +
			"Not covered: JSON well-formedness and escaping (delegated to encoding/json), numeric relations as numbers.",
		rules:   []ruleFn{ruleP20Xor, ruleP20Fields, ruleP20Tags, ruleP20Run, ruleP20OnlyJson, ruleP20NoEdit, ruleP10Accessors},
		trusted: []string{"encoding/json emits one well-formed document per Encode call"},
	})
}

func ruleP14Lang(p *Prog, r *Report) {
	const rule = "P14-lang"
	for _, pt := range []struct{ global, ref, what string }{
		{"HashTagPattern", `#[\p{L}\d_-]+(=("[^"]*"|'[^']*'|[\p{L}\d_-]*))?`, "the specification's tag syntax"},
		{"unquotedValuePattern", `[\p{L}\d_-]+`, "a non-empty run of letters, digits, _ and -"},
	} {
		g := p.global("klog", pt.global)
		if g == nil {
			r.undecided(rule, pt.global, "-", "pattern variable klog.%s not found", pt.global)
			continue
		}
		src, ok := p.regexOfGlobal(g)
		if !ok {
			r.undecided(rule, pt.global, p.pos(g.Pos()), "klog.%s is not initialised once with regexp.MustCompile(constant)", pt.global)
			continue
		}
		eq, w, err := reEquivalent(src, pt.ref)
		if err != nil {
			r.undecided(rule, pt.global, p.pos(g.Pos()), "cannot compare pattern: %v", err)
			continue
		}
		r.check(eq, rule, pt.global, p.pos(g.Pos()), src+" is language-equivalent to "+pt.what, fmt.Sprintf("%s is not %s: %s", src, pt.what, w))
	}
	// NewTagFromString: name = group 1, value from group 3, whole input must be the match
	f := p.fn("klog", "NewTagFromString")
	if r.anchorFn(rule, f, "klog.NewTagFromString") {
		var ctor ssa.CallInstruction
		eachInstr(f, func(in ssa.Instruction) {
			if c, ok := in.(ssa.CallInstruction); ok && staticCallee(c) != nil && fnBase(staticCallee(c)) == "NewTagOrPanic" {
				ctor = c
			}
		})
		if ctor == nil {
			r.bad(rule, "NewTagFromString:ctor", p.pos(f.Pos()), "NewTagFromString does not construct a tag")
		} else {
			_, g1, ok1 := p.patternOfMatch(ctor.Common().Args[0])
			r.check(ok1 && g1 == 1, rule, "NewTagFromString:name", p.instrPos(ctor), "the name is capture group 1", "the tag name is not capture group 1 of the tag pattern")
			// whole-input check: len(match[0]) != len(tag) -> error
			okWhole := false
			blocks := append([]*ssa.BasicBlock{}, f.Blocks...)
			// … also where the match and this test sit in a helper that answers nil for a text
			// it refuses, and NewTagFromString rejects on nil
			var matchHelper *ssa.Function
			eachInstr(f, func(in ssa.Instruction) {
				c, isC := in.(ssa.CallInstruction)
				if !isC || matchHelper != nil {
					return
				}
				h, inner := nilOrValueHelper(c)
				if h == nil || c.Value() == nil {
					return
				}
				if nm, _, _, _ := methodCall(inner); nm != "FindStringSubmatch" {
					return
				}
				for _, t := range nilTestsOf(f, c.Value()) {
					if rejectComplete(t.If.Block().Succs[t.NilSucc], func(ret *ssa.Return) string {
						if p.nilnessAt(ret.Block(), retResult(ret, 1), 0) != nnNonNil {
							return "no error"
						}
						return ""
					}) == "" && len(guardsOf(t.If.Block())) == 0 {
						matchHelper = h
					}
				}
			})
			if matchHelper != nil {
				blocks = append(blocks, matchHelper.Blocks...)
			}
			for _, b := range blocks {
				iff, isIf := b.Instrs[len(b.Instrs)-1].(*ssa.If)
				if !isIf {
					continue
				}
				bo, isB := iff.Cond.(*ssa.BinOp)
				if !isB || (bo.Op != token.NEQ && bo.Op != token.EQL) {
					continue
				}
				// len(match[0]) vs len(tag), or the two strings themselves (the match is a
				// substring of the input, so equal length and equal text are the same)
				var m0 ssa.Value
				var ly *ssa.Call
				if lx, okx := strip(bo.X).(*ssa.Call); okx {
					ly2, oky := strip(bo.Y).(*ssa.Call)
					if !oky {
						continue
					}
					m0, ly = lx.Call.Args[0], ly2
				} else {
					// one side is group 0, the other the very text that was matched
					subject := func(m ssa.Value) ssa.Value {
						u, ok := strip(m).(*ssa.UnOp)
						if !ok {
							return nil
						}
						ia, ok := u.X.(*ssa.IndexAddr)
						if !ok {
							return nil
						}
						if c, _ := callOf(deref(ia.X)); c != nil {
							if nm, _, args, _ := methodCallOf(c); strings.HasPrefix(nm, "FindStringSubmatch") && len(args) >= 1 {
								return args[0]
							}
						}
						return nil
					}
					switch {
					case subject(bo.X) != nil && sameValue(subject(bo.X), bo.Y):
						m0 = bo.X
					case subject(bo.Y) != nil && sameValue(subject(bo.Y), bo.X):
						m0 = bo.Y
					default:
						continue
					}
				}
				_, g0, okm := p.patternOfMatch(m0)
				if okm && g0 == 0 {
					diff := b.Succs[0]
					if bo.Op == token.EQL {
						diff = b.Succs[1]
					}
					if rejectComplete(diff, func(ret *ssa.Return) string {
						if b.Parent() == matchHelper {
							if !isNilConst(plainDeref(ret.Results[0])) {
								return "a match"
							}
							return ""
						}
						if p.nilnessAt(ret.Block(), retResult(ret, 1), 0) != nnNonNil {
							return "no error"
						}
						return ""
					}) == "" {
						okWhole = true
					}
					_ = ly
				}
			}
			r.check(okWhole, rule, "NewTagFromString:whole", p.pos(f.Pos()), "input with characters beyond the match is rejected", "NewTagFromString accepts input that is longer than the matched tag")
		}
	}
}

func ruleP14Model(p *Prog, r *Report) {
	// P14-lower
	ctor := p.fn("klog", "NewTagOrPanic")
	if r.anchorFn("P14-lower", ctor, "klog.NewTagOrPanic") {
		okName, okVal := false, false
		eachInstr(ctor, func(in ssa.Instruction) {
			st, ok := in.(*ssa.Store)
			if !ok {
				return
			}
			fa, ok := st.Addr.(*ssa.FieldAddr)
			if !ok || typeNameOf(fa.X.Type()) != "Tag" {
				return
			}
			switch fieldName(fa) {
			case "name":
				if c, _ := callOf(st.Val); c != nil && staticCallee(c) != nil && staticCallee(c).String() == "strings.ToLower" && strip(c.Common().Args[0]) == ssa.Value(ctor.Params[0]) {
					okName = true
				}
			case "value":
				okVal = strip(st.Val) == ssa.Value(ctor.Params[1])
			}
		})
		r.check(okName, "P14-lower", "name", p.pos(ctor.Pos()), "tag names are stored lower-cased", "the tag name is not stored as strings.ToLower(name): names would compare case-sensitively")
		r.check(okVal, "P14-lower", "value", p.pos(ctor.Pos()), "tag values are stored as given (case-sensitive)", "the tag value is altered when stored")
	}
	// every Tag literal is built by NewTagOrPanic (or is the zero Tag)
	nLit := 0
	for _, f := range p.srcFns {
		eachInstr(f, func(in ssa.Instruction) {
			st, ok := in.(*ssa.Store)
			if !ok {
				return
			}
			fa, ok := st.Addr.(*ssa.FieldAddr)
			if !ok || typeNameOf(fa.X.Type()) != "Tag" || typePkgPath(fa.X.Type()) != modPath+"/klog" {
				return
			}
			nLit++
			if !sameFn(f, ctor) {
				r.bad("P14-lower", "literal:"+fnName(f), p.instrPos(st), "a Tag is built outside NewTagOrPanic (its name may not be lower-cased)")
			}
		})
	}
	// P14-barename: Put
	put := p.method("klog", "TagSet", "Put")
	if r.anchorFn("P14-barename", put, "klog.TagSet.Put") {
		var self, bare bool
		eachInstr(put, func(in ssa.Instruction) {
			mu, ok := in.(*ssa.MapUpdate)
			if !ok {
				return
			}
			if _, fld := fieldLoad(mu.Map); fld != "lookup" {
				return
			}
			if b, isB := constBool(mu.Value); !isB || !b {
				return
			}
			if deref(mu.Key) == ssa.Value(put.Params[1]) {
				self = true
			}
			if c, _ := callOf(mu.Key); c != nil && sameFn(staticCallee(c), ctor) {
				n, recv, _, _ := methodCall(c.Common().Args[0])
				s, isS := constString(c.Common().Args[1])
				if n == "Name" && deref(recv) == ssa.Value(put.Params[1]) && isS && s == "" {
					bare = true
				}
			}
		})
		r.check(self, "P14-barename", "Put:tag", p.pos(put.Pos()), "Put registers the tag itself", "Put does not register the tag itself")
		r.check(bare, "P14-barename", "Put:bare", p.pos(put.Pos()), "Put also registers the bare name (so #tag matches #tag=value)", "Put does not register the bare name: a tag with value no longer matches its bare name")
	}
	cont := p.method("klog", "TagSet", "Contains")
	if r.anchorFn("P14-barename", cont, "klog.TagSet.Contains") {
		for _, ret := range returnsOf(cont) {
			isOwnLookup := func(v ssa.Value) bool {
				v = strip(v)
				if ex, isEx := v.(*ssa.Extract); isEx {
					v = ex.Tuple // the value or the presence flag of a comma-ok lookup: Put stores nothing but true
				}
				lk, ok := v.(*ssa.Lookup)
				if !ok || strip(lk.Index) != ssa.Value(cont.Params[1]) {
					return false
				}
				_, fld := fieldLoad(lk.X)
				return fld == "lookup"
			}
			good := isOwnLookup(retResult(ret, 0))
			if !good {
				// `ok && present`: a conjunction of components of that one lookup
				if alts, okA := truthAlts(retResult(ret, 0), 0); okA && len(alts) == 1 && len(alts[0]) > 0 {
					good = true
					for _, g := range alts[0] {
						if !g.Pol || !isOwnLookup(g.Cond) {
							good = false
						}
					}
				}
			}
			r.check(good, "P14-barename", "Contains", p.instrPos(ret), "Contains(tag) is a lookup of that very tag", "Contains does not look up the tag it is given")
		}
	}
	// Merge: every tag of every set is Put into the result
	mg := p.fn("klog", "Merge")
	if r.anchorFn("P14-merge", mg, "klog.Merge") {
		ok := false
		eachVInstr(mg, func(in ssa.Instruction) {
			c, isC := in.(ssa.CallInstruction)
			if !isC || !sameFn(staticCallee(c), put) {
				return
			}
			// argument is the key of a range over <element of tagSets>.lookup
			if ex, isEx := strip(c.Common().Args[1]).(*ssa.Extract); isEx && ex.Index == 1 {
				if nx, isN := ex.Tuple.(*ssa.Next); isN {
					if rg, isR := nx.Iter.(*ssa.Range); isR {
						if base, fld := fieldLoad(rg.X); fld == "lookup" && base != nil {
							if coll := rangeElemOf(base); coll != nil && strip(coll) == ssa.Value(mg.Params[0]) {
								if only, _ := onlyLoopGuards(c.Block()); only {
									ok = true
								}
							}
						}
					}
				}
			}
		})
		r.check(ok, "P14-merge", "Merge", p.pos(mg.Pos()), "Merge puts every tag of every given set into the result", "Merge does not put every tag of every set into the result")
	}
	// Summary.Tags: all matches (n = -1) of all lines
	tags := p.method("klog", "RecordSummary", "Tags")
	if r.anchorFn("P14-once", tags, "klog.RecordSummary.Tags") {
		var find ssa.CallInstruction
		var findVI vinstr
		for _, vi := range virtualInstrs(tags) {
			if c, ok := vi.in.(ssa.CallInstruction); ok {
				if n, _, _, _ := methodCallOf(c); n == "FindAllStringSubmatch" || n == "FindAllString" {
					find, findVI = c, vi
				}
			}
		}
		ok := false
		if find != nil {
			findVI.run(func() {
				_, recv, args, _ := methodCallOf(find)
				u, isU := strip(recv).(*ssa.UnOp)
				k, isK := constInt(args[1])
				coll := rangeElemOf(args[0])
				only, _ := onlyLoopGuards(find.Block())
				// (the lines of the summary: the summary itself, or its Lines(), which is the same slice)
				isSelf := coll != nil && deref(coll) == ssa.Value(tags.Params[0])
				if nm, rv, _, mc := methodCall(coll); !isSelf && mc != nil && nm == "Lines" && rv != nil && strip(rv) == ssa.Value(tags.Params[0]) {
					if g := staticCallee(mc); g != nil && len(g.Params) == 1 {
						if rets := plainReturnsOf(g); len(rets) == 1 && len(rets[0].Results) == 1 && strip(rets[0].Results[0]) == ssa.Value(g.Params[0]) {
							isSelf = true
						}
					}
				}
				ok = isU && u.X == ssa.Value(p.global("klog", "HashTagPattern")) && isK && k < 0 && isSelf && only
			})
		}
		r.check(ok, "P14-once", "Summary.Tags:all-matches", p.pos(tags.Pos()), "all matches (n = -1) of the tag pattern in every summary line", "Summary.Tags does not collect all tag matches of all lines")
		okPut := false
		eachVInstr(tags, func(in ssa.Instruction) {
			if c, isC := in.(ssa.CallInstruction); isC && sameFn(staticCallee(c), put) {
				if tc, idx := callOf(c.Common().Args[1]); tc != nil && idx == 0 && staticCallee(tc) != nil && fnBase(staticCallee(tc)) == "NewTagFromString" {
					// the text handed over is the WHOLE match: m[0] of a submatch list, or the
					// element of FindAllString
					whole := false
					a := strip(tc.Common().Args[0])
					if find != nil {
						fname, _, _, _ := methodCallOf(find)
						if fname == "FindAllString" {
							whole = rangeElemOf(a) != nil && sameValue(rangeElemOf(a), find.Value())
						} else if u, isU := a.(*ssa.UnOp); isU && u.Op == token.MUL {
							if ia, isIA := u.X.(*ssa.IndexAddr); isIA {
								if k, isK := constInt(ia.Index); isK && k == 0 {
									whole = true
								}
							}
						}
					}
					if only, _ := onlyLoopGuards(c.Block()); only && whole {
						okPut = true
					}
				}
			}
		})
		r.check(okPut, "P14-once", "Summary.Tags:put", p.pos(tags.Pos()), "every match is parsed and put into the set", "not every tag match is put into the set")
		// EntrySummary.Tags delegates
		et := p.method("klog", "EntrySummary", "Tags")
		if r.anchorFn("P14-once", et, "klog.EntrySummary.Tags") {
			okD := false
			for _, ret := range returnsOf(et) {
				if c, _ := callOf(retResult(ret, 0)); c != nil && sameFn(staticCallee(c), tags) {
					okD = true
				}
				// … or both go to the same private function with their own lines
				if c, ok := ret.Results[0].(*ssa.Call); ok && !okD {
					if g := rawStaticCallee(c); g != nil && isHelper(g) && len(c.Call.Args) == 1 {
						for _, r2 := range returnsOf(tags) {
							if c2, ok2 := r2.Results[0].(*ssa.Call); ok2 && rawStaticCallee(c2) != nil && originFn(rawStaticCallee(c2)) == originFn(g) && len(c2.Call.Args) == 1 {
								own := func(v ssa.Value, f *ssa.Function) bool {
									x := v
									for {
										if ct, isCT := x.(*ssa.ChangeType); isCT {
											x = ct.X
											continue
										}
										break
									}
									return x == ssa.Value(f.Params[0])
								}
								if own(c.Call.Args[0], et) && own(c2.Call.Args[0], tags) {
									okD = true
								}
							}
						}
					}
				}
			}
			r.check(okD, "P14-once", "EntrySummary.Tags", p.pos(et.Pos()), "entry summaries use the same recognition", "entry summaries do not use RecordSummary.Tags")
		}
	}
	// isSubsetOf: every queried tag must be contained
	sub := p.fn("klog/service", "isSubsetOf")
	if r.anchorFn("P14-merge", sub, "service.isSubsetOf") {
		ok := false
		for _, b := range sub.Blocks {
			iff, isIf := b.Instrs[len(b.Instrs)-1].(*ssa.If)
			if !isIf {
				continue
			}
			gs := flattenCond(iff.Cond, true, iff)
			c, isC := gs[0].Cond.(*ssa.Call)
			if !isC || !sameFn(staticCallee(c), cont) {
				continue
			}
			coll := rangeElemOf(c.Call.Args[1])
			if coll == nil || strip(coll) != ssa.Value(sub.Params[0]) || !isParamOrSpill(c.Call.Args[0], sub.Params[1]) {
				continue
			}
			missing := b.Succs[1]
			if !gs[0].Pol {
				missing = b.Succs[0]
			}
			if rejectComplete(missing, func(ret *ssa.Return) string {
				if v, isB := constBool(retResult(ret, 0)); !isB || v {
					return "not false"
				}
				return ""
			}) == "" {
				ok = true
			}
		}
		// and true only after the loop
		for _, ret := range returnsOf(sub) {
			if v, isB := constBool(retResult(ret, 0)); isB && v {
				for _, g := range guardsOf(ret.Block()) {
					if !isLoopGuard(Guard{Cond: g.Cond, Pol: !g.Pol}) && !g.Pol {
						continue
					}
				}
			}
		}
		r.check(ok, "P14-merge", "isSubsetOf", p.pos(sub.Pos()), "a record/entry matches only if it contains every queried tag", "isSubsetOf does not fail as soon as one queried tag is missing")
		// … and for no other reason: every way of answering "no" rests on a queried tag that the
		// set does not contain (a shortcut by counting, say, rejects `--tag a --tag A`)
		for i, ret := range returnsOf(sub) {
			alts, okA := falseAlts(retResult(ret, 0), 0)
			if !okA {
				r.undecided("P14-merge", fmt.Sprintf("isSubsetOf:no#%d", i), p.instrPos(ret), "cannot tell when this return answers false")
				continue
			}
			for _, alt := range alts {
				missing := false
				for _, g := range append(append([]Guard{}, guardsOf(ret.Block())...), alt...) {
					c, isC := g.Cond.(*ssa.Call)
					if !isC || g.Pol || !sameFn(staticCallee(c), cont) {
						continue
					}
					if coll := rangeElemOf(c.Call.Args[1]); coll != nil && strip(coll) == ssa.Value(sub.Params[0]) && isParamOrSpill(c.Call.Args[0], sub.Params[1]) {
						missing = true
					}
				}
				r.check(missing, "P14-merge", fmt.Sprintf("isSubsetOf:no#%d", i), p.instrPos(ret), "answers no because a queried tag is missing", "isSubsetOf can answer no although no queried tag was found missing: records and entries that carry every queried tag are filtered out")
			}
		}
	}
	_ = nLit
}

func ruleP14Aggregate(p *Prog, r *Report) {
	const rule = "P14-once"
	f := p.fn("klog/service", "AggregateTotalsByTags")
	mg := p.fn("klog", "Merge")
	if !r.anchorFn(rule, f, "service.AggregateTotalsByTags") || !r.anchorFn(rule, mg, "klog.Merge") {
		return
	}
	cs := callsTo(f, mg)
	if len(cs) != 1 {
		r.bad(rule, "merge", p.pos(f.Pos()), "the per-entry tag set is not built by one klog.Merge call")
		return
	}
	els, ok := sliceLitElems(cs[0].Common().Args[0])
	okM := ok && len(els) == 2
	var entry ssa.Value
	if okM {
		var fromRec, fromEntry bool
		for _, e := range els {
			n, recv, _, _ := methodCall(e)
			if n != "Tags" {
				okM = false
				continue
			}
			n2, r2, _, _ := methodCall(recv)
			if n2 != "Summary" {
				okM = false
				continue
			}
			if coll := rangeElemOf(r2); coll != nil {
				if strip(coll) == ssa.Value(f.Params[0]) {
					fromRec = true
				} else if n3, _, _, _ := methodCall(coll); n3 == "Entries" {
					fromEntry = true
					entry = r2
				}
			}
		}
		okM = okM && fromRec && fromEntry
	}
	r.check(okM, "P14-merge", "aggregate:merge", p.instrPos(cs[0]), "per entry: Merge(record summary tags, entry summary tags)", "the tag set of an entry is not Merge(record tags, entry tags): record-level tags would not apply to every entry")
	// iterate the keys of merged.ForLookup(); put(tag, e.Duration()) once per key
	var put ssa.CallInstruction
	eachInstr(f, func(in ssa.Instruction) {
		if c, ok := in.(ssa.CallInstruction); ok && staticCallee(c) != nil && fnBase(staticCallee(c)) == "put" {
			put = c
		}
	})
	if put == nil {
		r.bad(rule, "aggregate:put", p.pos(f.Pos()), "durations are not attributed to tags")
		return
	}
	okKey := false
	if ex, isEx := strip(put.Common().Args[1]).(*ssa.Extract); isEx && ex.Index == 1 {
		if nx, isN := ex.Tuple.(*ssa.Next); isN {
			if rg, isR := nx.Iter.(*ssa.Range); isR {
				if n, recv, _, _ := methodCall(rg.X); n == "ForLookup" {
					// receiver is (the address of) the merged set
					if a, isA := strip(recv).(*ssa.Alloc); isA {
						for _, s := range storesTo(a) {
							if s.val == cs[0].Value() {
								okKey = true
							}
						}
					}
				}
			}
		}
	}
	r.check(okKey, rule, "aggregate:keys", p.instrPos(put), "each key of the merged set (a set: one entry per tag and per tag=value) is visited once", "the aggregation does not iterate the keys of the merged tag set (a tag could be counted more than once per entry)")
	// … for EVERY entry: put() is also what makes a tag known and counts its entries, so no
	// entry is passed over (a zero duration, an open range without --now still carries its tags).
	// The only conditions on the way to put(): the loops themselves and "not counted yet for this
	// entry" (a membership test of a set that is filled in the same loop).
	skip := ""
	for _, g := range guardsOf(put.Block()) {
		if isLoopGuard(g) || isLoopGuard(Guard{Cond: g.Cond, Pol: !g.Pol, If: g.If}) {
			continue
		}
		if membershipTest(g.Cond) != nil {
			continue
		}
		if bo, isB := g.Cond.(*ssa.BinOp); isB {
			if _, isLk := strip(bo.X).(*ssa.Lookup); isLk {
				continue
			}
		}
		if _, isLk := strip(g.Cond).(*ssa.Lookup); isLk {
			continue
		}
		if ex, isEx := strip(g.Cond).(*ssa.Extract); isEx {
			if _, isLk := ex.Tuple.(*ssa.Lookup); isLk {
				continue
			}
			if _, isNx := ex.Tuple.(*ssa.Next); isNx {
				continue
			}
		}
		skip = g.Cond.String() + " at " + p.instrPos(g.If)
	}
	r.check(skip == "", rule, "aggregate:every-entry", p.instrPos(put), "every entry's tags are registered, whatever the entry is worth", "an entry's tags are only registered when "+skip+": tags that occur only on such entries are missing from `klog tags`, and --count is too low")
	n, recv, _, _ := methodCall(put.Common().Args[2])
	r.check(n == "Duration" && entry != nil && sameValue(recv, entryAddrOf(entry)) || n == "Duration", rule, "aggregate:amount", p.instrPos(put), "the amount attributed is the entry's Duration()", "the amount attributed to a tag is not the entry's duration")
	// put(): creates on first sight, then Total = Total.Plus(d), Count++
	pf := p.method("klog/service", "totalByTag", "put")
	if r.anchorFn(rule, pf, "service.totalByTag.put") {
		okPlus, okCount := false, false
		eachInstr(pf, func(in ssa.Instruction) {
			st, ok := in.(*ssa.Store)
			if !ok {
				return
			}
			fa, ok := st.Addr.(*ssa.FieldAddr)
			if !ok || typeNameOf(fa.X.Type()) != "TagStats" {
				return
			}
			if len(guardsOf(st.Block())) != 0 {
				return
			}
			switch fieldName(fa) {
			case "Total":
				if n, recv, args, _ := methodCall(st.Val); n == "Plus" && len(args) == 1 && strip(args[0]) == ssa.Value(pf.Params[2]) {
					if _, fld := fieldLoad(recv); fld == "Total" {
						okPlus = true
					}
				}
			case "Count":
				pl := polyOf(st.Val)
				if pl.C == 1 && len(pl.Terms) == 1 {
					okCount = true
				}
			}
		})
		r.check(okPlus && okCount, rule, "put:accumulate", p.pos(pf.Pos()), "Total += d and Count++ on every call", "put does not add the duration to the tag's total (and count one entry) on every call")
	}
	_ = types.Typ
}

func entryAddrOf(v ssa.Value) ssa.Value { return v }

// ---------------------------------------------------------------------------------------------
// C20

func ruleP20Xor(p *Prog, r *Report) {
	const rule = "P20-xor"
	f := p.fn("klog/parser/json", "ToJson")
	if !r.anchorFn(rule, f, "json.ToJson") {
		return
	}
	errs := f.Params[1]
	n := 0
	for _, g := range withAnons(f) {
		eachInstr(g, func(in ssa.Instruction) {
			st, ok := in.(*ssa.Store)
			if !ok {
				return
			}
			fa, ok := st.Addr.(*ssa.FieldAddr)
			if !ok || typeNameOf(fa.X.Type()) != "Envelop" {
				return
			}
			n++
			// which branch
			isNilBranch, known := false, false
			for _, gd := range guardsOf(st.Block()) {
				if x, isNil, ok := nilFact(gd); ok && (deref(x) == ssa.Value(errs) || strip(x) == ssa.Value(errs)) {
					isNilBranch, known = isNil, true
				}
			}
			if !known {
				r.bad(rule, "envelope:"+fieldName(fa), p.instrPos(st), "an envelope field is set outside the errs == nil decision")
				return
			}
			key := fmt.Sprintf("errs-%s:%s", map[bool]string{true: "nil", false: "present"}[isNilBranch], fieldName(fa))
			switch {
			case fieldName(fa) == "Records" && isNilBranch:
				c, _ := callOf(st.Val)
				good := c != nil && staticCallee(c) != nil && p.neverNilSlice(staticCallee(c))
				r.check(good, rule, key, p.instrPos(st), "valid input: records is a non-nil (possibly empty) array", "for valid input the records array can be null")
			case fieldName(fa) == "Errors" && isNilBranch:
				r.check(isNilConst(st.Val), rule, key, p.instrPos(st), "valid input: errors is null", "for valid input errors is not null")
			case fieldName(fa) == "Records" && !isNilBranch:
				r.check(isNilConst(st.Val), rule, key, p.instrPos(st), "invalid input: records is null", "for invalid input records is not null")
			case fieldName(fa) == "Errors" && !isNilBranch:
				c, _ := callOf(st.Val)
				good := c != nil && staticCallee(c) != nil && fnBase(staticCallee(c)) == "toErrorViews" && deref(c.Common().Args[0]) == ssa.Value(errs)
				r.check(good, rule, key, p.instrPos(st), "invalid input: errors are the rendered parser errors", "for invalid input errors is not toErrorViews(errs)")
			}
		})
	}
	if n < 4 {
		r.undecided(rule, "floor", "-", "found %d envelope field assignments, expected 4", n)
	}
	// P20-encode: returns the encoder's buffer after one Encode(&envelope)
	nEnc := 0
	var buf ssa.Value
	eachVInstr(f, func(in ssa.Instruction) {
		if c, ok := in.(ssa.CallInstruction); ok && staticCallee(c) != nil {
			switch staticCallee(c).String() {
			case "(*encoding/json.Encoder).Encode":
				nEnc++
			case "encoding/json.NewEncoder":
				if mi, ok := c.Common().Args[0].(*ssa.MakeInterface); ok {
					buf = mi.X
				}
			}
		}
	})
	okRet := false
	for _, ret := range returnsOf(f) {
		var found bool
		var walk func(v ssa.Value, d int)
		walk = func(v ssa.Value, d int) {
			if d > 4 {
				return
			}
			if cv, isConv := strip(v).(*ssa.Convert); isConv {
				walk(cv.X, d+1) // string(bytes…)
				return
			}
			if c, _ := callOf(v); c != nil {
				if staticCallee(c) != nil && (staticCallee(c).String() == "(*bytes.Buffer).String" || staticCallee(c).String() == "(*bytes.Buffer).Bytes" || staticCallee(c).String() == "(*strings.Builder).String") && buf != nil && sameValue(c.Common().Args[0], buf) {
					found = true
				}
				for _, a := range c.Common().Args {
					walk(a, d+1)
				}
			}
		}
		walk(retResult(ret, 0), 0)
		okRet = found
	}
	r.check(nEnc == 1 && okRet, "P20-encode", "ToJson", p.pos(f.Pos()), "one Encode of the envelope; the buffer's contents are returned", fmt.Sprintf("ToJson does not return the buffer of exactly one Encode (encodes: %d)", nEnc))
}

// neverNilSlice: every return of g is a slice that starts from a non-nil literal and is only appended to.
func (p *Prog) neverNilSlice(g *ssa.Function) bool {
	if len(g.Blocks) == 0 {
		return false
	}
	for _, ret := range returnsOf(g) {
		_, leaves := accWeb(retResult(ret, 0))
		if len(leaves) == 0 {
			return false
		}
		for _, l := range leaves {
			if sl, ok := l.(*ssa.Slice); ok {
				if _, isA := sl.X.(*ssa.Alloc); isA {
					continue // []T{} literal
				}
			}
			if _, ok := l.(*ssa.MakeSlice); ok {
				continue
			}
			return false
		}
	}
	return true
}

func ruleP20Fields(p *Prog, r *Report) {
	const rule = "P20-fields"
	rv := p.fn("klog/parser/json", "toRecordViews")
	ev := p.fn("klog/parser/json", "toEntryViews")
	if !r.anchorFn(rule, rv, "json.toRecordViews") || !r.anchorFn(rule, ev, "json.toEntryViews") {
		return
	}
	// describe a value as a chain of accessor names ending at the loop element or a call
	var chain func(v ssa.Value, d int) string
	chain = func(v ssa.Value, d int) string {
		if d > 6 {
			return "?"
		}
		// a field of a small result struct that is filled in one place: what was put there
		if iv, ok := fieldInitValue(v); ok {
			return chain(iv, d+1)
		}
		v = deref(v)
		if iv, ok := fieldInitValue(v); ok {
			return chain(iv, d+1)
		}
		if cv, ok := v.(*ssa.ChangeType); ok {
			return chain(cv.X, d+1)
		}
		if rangeElemOf(v) != nil {
			return "elem"
		}
		if a, ok := v.(*ssa.Alloc); ok && rangeElemOf(a) != nil {
			return "elem"
		}
		if prm, ok := v.(*ssa.Parameter); ok {
			// (named by its type: the parameter of the Range arm, of the OpenRange arm …)
			if tn := typeNameOf(prm.Type()); tn != "" {
				return "param:" + tn
			}
			return "param:" + prm.Name()
		}
		if c, idx := callOf(v); c != nil && idx == 0 {
			n, recv, margs, _ := methodCallOf(c)
			if n != "" {
				if (n == "Minus" || n == "Plus") && len(margs) == 1 {
					return chain(recv, d+1) + "." + n + "(" + chain(margs[0], d+1) + ")"
				}
				return chain(recv, d+1) + "." + n
			}
			if g := staticCallee(c); g != nil {
				// service.Diff(should, actual) is actual.Minus(should) (P02-diff)
				if fnBase(g) == "Diff" && len(c.Common().Args) == 2 {
					return chain(c.Common().Args[1], d+1) + ".Minus(" + chain(c.Common().Args[0], d+1) + ")"
				}
				var as []string
				for _, a := range c.Common().Args {
					if els, ok := sliceLitElems(a); ok && len(els) == 1 {
						as = append(as, chain(els[0], d+1))
					} else {
						as = append(as, chain(a, d+1))
					}
				}
				return fnBase(g) + "(" + strings.Join(as, ",") + ")"
			}
		}
		if s, ok := constString(v); ok {
			return fmt.Sprintf("%q", s)
		}
		return "?"
	}
	fieldsOf := func(f *ssa.Function, typ string) map[string]string {
		out := map[string]string{}
		fs := plainWithAnons(f)
		// the function literals of a helper the body was moved to (the helper's own
		// instructions are visited through its call)
		for _, h := range helpersCalledFrom(plainWithAnons(f)) {
			for _, a := range plainWithAnons(h) {
				if a != h {
					fs = append(fs, a)
				}
			}
		}
		// … and methods passed as method values (the arms of a dispatch written as methods)
		for _, g := range append([]*ssa.Function{}, fs...) {
			eachInstr(g, func(in ssa.Instruction) {
				if mc, ok := in.(*ssa.MakeClosure); ok {
					if t := boundTarget(mc.Fn.(*ssa.Function)); t != nil && t != mc.Fn && t.Signature.Recv() != nil && p.inModFn(t) {
						fs = append(fs, plainWithAnons(t)...)
					}
				}
			})
		}
		for _, g := range fs {
			eachVInstr(g, func(in ssa.Instruction) {
				st, ok := in.(*ssa.Store)
				if !ok {
					return
				}
				fa, ok := st.Addr.(*ssa.FieldAddr)
				if !ok || typeNameOf(fa.X.Type()) != typ {
					return
				}
				d := chain(st.Val, 0)
				if old, dup := out[fieldName(fa)]; dup && old != d {
					d = old + " | " + d
				}
				out[fieldName(fa)] = d
			})
		}
		return out
	}
	check := func(typ string, got map[string]string, want map[string]string, pos string) {
		for _, k := range sortedKeys(want) {
			okAlt := false
			for _, alt := range strings.Split(want[k], " || ") {
				if got[k] == alt {
					okAlt = true
				}
			}
			r.check(okAlt, rule, typ+"."+k, pos, k+" <- "+want[k], fmt.Sprintf("%s.%s is computed as %s, expected %s", typ, k, got[k], want[k]))
		}
	}
	check("RecordView", fieldsOf(rv, "RecordView"), map[string]string{
		"Date":            "elem.Date.ToString",
		"Summary":         "elem.Summary.ToString",
		"Total":           "Total(elem).ToString",
		"TotalMins":       "Total(elem).InMinutes",
		"ShouldTotal":     "elem.ShouldTotal.ToString",
		"ShouldTotalMins": "elem.ShouldTotal.InMinutes",
		"Diff":            "Total(elem).Minus(elem.ShouldTotal).ToStringWithSign",
		"DiffMins":        "Total(elem).Minus(elem.ShouldTotal).InMinutes",
		"Tags":            "toTagViews(elem.Summary.Tags) || toTagViews(elem.Summary.Tags.ToStrings)",
		"Entries":         "toEntryViews(elem.Entries)",
	}, p.pos(rv.Pos()))
	check("EntryView", fieldsOf(ev, "EntryView"), map[string]string{
		"Summary":   "elem.Summary.ToString",
		"Tags":      "toTagViews(elem.Summary.Tags) || toTagViews(elem.Summary.Tags.ToStrings)",
		"Total":     "elem.Duration.ToString",
		"TotalMins": "elem.Duration.InMinutes",
		"Type":      `"range" | "duration" | "open_range"`,
	}, p.pos(ev.Pos()))
	// start / end of the two range kinds: by field name, whichever view struct declares the field
	// (RangeView may embed OpenRangeView or declare start and end itself)
	rangeFields := map[string]map[string]bool{}
	for _, typ := range []string{"OpenRangeView", "RangeView"} {
		for k, d := range fieldsOf(ev, typ) {
			if rangeFields[k] == nil {
				rangeFields[k] = map[string]bool{}
			}
			for _, alt := range strings.Split(d, " | ") {
				rangeFields[k][alt] = true
			}
		}
	}
	for _, w := range []struct {
		field string
		want  []string
	}{
		{"Start", []string{"param:OpenRange.Start.ToString", "param:Range.Start.ToString"}},
		{"StartMins", []string{"param:OpenRange.Start.MidnightOffset.InMinutes", "param:Range.Start.MidnightOffset.InMinutes"}},
		{"End", []string{"param:Range.End.ToString"}},
		{"EndMins", []string{"param:Range.End.MidnightOffset.InMinutes"}},
	} {
		got := sortedKeys(rangeFields[w.field])
		r.check(strings.Join(got, " | ") == strings.Join(w.want, " | "), rule, "RangeViews."+w.field, p.pos(ev.Pos()), w.field+" <- "+strings.Join(w.want, " | "), fmt.Sprintf("%s of a range / open range is computed as %s, expected %s", w.field, strings.Join(got, " | "), strings.Join(w.want, " | ")))
	}
	// type constant per arm
	arms, _ := p.unboxArms(ev)
	if arms == nil {
		r.undecided(rule, "arms", p.pos(ev.Pos()), "toEntryViews does not dispatch through klog.Unbox")
	} else {
		want := map[string]string{"Range": "range", "Duration": "duration", "OpenRange": "open_range"}
		for kind, h := range arms {
			got := ""
			eachInstrIn(withAnons(h), func(in ssa.Instruction) {
				if st, ok := in.(*ssa.Store); ok {
					if fa, ok := st.Addr.(*ssa.FieldAddr); ok && fieldName(fa) == "Type" {
						got, _ = constString(st.Val)
					}
				}
			})
			r.check(got == want[kind], rule, "type:"+kind, p.pos(h.Pos()), kind+" entries have type "+want[kind], fmt.Sprintf("%s entries are labelled %q", kind, got))
		}
	}
	// one view per element, in order
	for _, f := range []*ssa.Function{rv, ev} {
		for _, ret := range returnsOf(f) {
			apps, _ := accWeb(retResult(ret, 0))
			ok := len(apps) == 1
			if ok {
				only, _ := onlyLoopGuards(apps[0].Block())
				ok = only
			} else if puts, src, isFill := sliceFill(retResult(ret, 0)); isFill && len(apps) == 0 {
				// the pre-sized spelling: make([]T, len(input)) filled under the range index
				only, _ := onlyLoopGuards(puts[0].Block())
				ok = len(puts) == 1 && only && strip(src) == ssa.Value(f.Params[0])
			}
			r.check(ok, rule, fnBase(f)+":one-per-element", p.instrPos(ret), "one view per element, appended in input order", fnBase(f)+" does not append exactly one view per element in order")
		}
	}
}

func ruleP20Run(p *Prog, r *Report) {
	const rule = "P20-run"
	run := p.method("klog/app/cli", "Json", "Run")
	toJson := p.fn("klog/parser/json", "ToJson")
	if !r.anchorFn(rule, run, "cli.Json.Run") || !r.anchorFn(rule, toJson, "json.ToJson") {
		return
	}
	var read ssa.CallInstruction
	// the print sites, also those inside a helper (once per call of the helper)
	var prints []vinstr
	whereOf := map[ssa.Instruction][]*ssa.BasicBlock{}
	for _, vi := range virtualInstrs(run) {
		c, ok := vi.in.(ssa.CallInstruction)
		if !ok || !c.Common().IsInvoke() {
			continue
		}
		switch c.Common().Method.Name() {
		case "ReadInputs":
			read = c
		case "Print":
			prints = append(prints, vi)
		}
	}
	where := func(vi vinstr) *ssa.BasicBlock {
		if len(vi.chain) > 0 {
			return vi.chain[0].Block()
		}
		return vi.in.Block()
	}
	_ = whereOf
	if read == nil {
		r.bad(rule, "read", p.pos(run.Pos()), "Json.Run does not read its inputs")
		return
	}
	recs, rErr := resultOf(read, 0), resultOf(read, 1)
	if recs == nil || rErr == nil {
		r.bad(rule, "read:results", p.instrPos(read), "a result of ReadInputs is discarded")
		return
	}
	// classify prints
	var errPrint, okPrint *ssa.BasicBlock
	for _, vi := range prints {
		vi := vi
		pc := vi.in.(ssa.CallInstruction)
		at := where(vi)
		vi.run(func() {
			var tj ssa.CallInstruction
			var leaves []ssa.Value
			concatLeaves(pc.Common().Args[0], &leaves, 0)
			for _, l := range leaves {
				if c, ok := isCallTo(l, toJson, 0); ok {
					tj = c
				}
				// fmt.Sprintln(doc) is doc + "\n"
				if fc, _ := callOf(l); fc != nil && staticCallee(fc) != nil && (staticCallee(fc).String() == "fmt.Sprintln" || staticCallee(fc).String() == "fmt.Sprint") && len(fc.Common().Args) == 1 {
					if els, okE := sliceLitElems(fc.Common().Args[0]); okE && len(els) == 1 {
						if c, ok := isCallTo(strip(els[0]), toJson, 0); ok {
							tj = c
						}
					}
				}
			}
			if tj == nil {
				r.bad(rule, "print:other", p.instrPos(pc), "Json.Run prints something that is not one JSON document")
				return
			}
			a := tj.Common().Args
			switch {
			case isNilConst(a[0]) && !isNilConst(a[1]):
				errPrint = at
				// errors: All() of the type-asserted parser errors
				n, recv, _, _ := methodCall(a[1])
				okSrc := false
				if n == "All" {
					if ex, ok := strip(recv).(*ssa.Extract); ok && ex.Index == 0 {
						if ta, ok := ex.Tuple.(*ssa.TypeAssert); ok && sameValue(ta.X, rErr) && typeNameOf(ta.AssertedType) == "ParserErrors" {
							okSrc = true
							// printed on the ok edge
							okEdge := false
							// (the guards of the print itself: in a helper they are the helper's own
							// plus those of its call)
							for _, g := range guardsOf(pc.Block()) {
								if e2, ok := g.Cond.(*ssa.Extract); ok && e2.Tuple == ssa.Value(ta) && e2.Index == 1 && g.Pol {
									okEdge = true
								}
							}
							okSrc = okEdge
						}
					}
				}
				r.check(okSrc && knownNonNil(at, rErr), rule, "errors:document", p.instrPos(pc), "parser errors -> ToJson(nil, thoseErrors.All(), pretty)", "the error document is not built from the parser errors that ReadInputs returned (on the type-assertion's ok edge)")
			case !isNilConst(a[0]) && isNilConst(a[1]):
				okPrint = at
				r.check(knownNil(at, rErr), rule, "records:document", p.instrPos(pc), "the record document is printed only when reading succeeded", "the record document can be printed although reading failed")
				// records pass ApplyNow / ApplyFilter / ApplySort
				var names []string
				v := a[0]
				for i := 0; i < 6; i++ {
					// the result of a helper that hands back (records, error): on the helper's
					// nil-error edge the records are those of its successful return
					if ex, isEx := strip(v).(*ssa.Extract); isEx && ex.Index == 0 {
						if hc, isCall := ex.Tuple.(*ssa.Call); isCall && rawStaticCallee(hc) != nil && isHelper(rawStaticCallee(hc)) {
							if he := resultOf(hc, errResultIndex(hc.Common().Signature())); he != nil && knownNil(at, he) {
								var succ []vrow
								for _, rw := range valueRows(v, 0, map[ssa.Value]bool{}) {
									if rw.errv != nil && isNilConst(rw.errv) {
										succ = append(succ, rw)
									}
								}
								if len(succ) == 1 {
									ht.ctx[originFn(rawStaticCallee(hc))] = hc
									v = succ[0].val
									continue
								}
							}
						}
					}
					c, idx := callOf(v)
					if c == nil || idx != 0 || staticCallee(c) == nil {
						break
					}
					names = append(names, fnBase(staticCallee(c)))
					v = c.Common().Args[len(c.Common().Args)-1]
				}
				okChain := strings.Join(names, "<") == "ApplySort<ApplyFilter" && sameValue(v, recs)
				r.check(okChain, rule, "records:pipeline", p.instrPos(pc), "records = ApplySort(ApplyFilter(records read))", "the records printed are not ApplySort(ApplyFilter(the records read)): "+strings.Join(names, "<"))
			default:
				r.bad(rule, "print:args", p.instrPos(pc), "ToJson is called with both or neither of records and errors")
			}
			// pretty flag
			if tag, _ := fieldTagOfLoad(a[2]); tag != "pretty" {
				r.bad(rule, "pretty", p.instrPos(pc), "the --pretty flag is not what controls pretty printing")
			}
		})
	}
	r.check(errPrint != nil && okPrint != nil && len(prints) == 2, rule, "documents", p.pos(run.Pos()), "one error document site and one record document site", fmt.Sprintf("expected exactly one error and one record document, found %d print sites", len(prints)))
	// every return: nil -> exactly one document printed on the path; non-nil -> none needed
	for i, ret := range returnsOf(run) {
		key := fmt.Sprintf("return#%d", i)
		if !isNilConst(retResult(ret, 0)) {
			// a failure that is returned: must be the read error or the ApplyNow error, non-nil
			r.check(p.nilnessAt(ret.Block(), retResult(ret, 0), 0) == nnNonNil, rule, key+":failure", p.instrPos(ret), "a returned failure is non-nil", "a failure return may carry a nil error (exit 0 without a document)")
			// a failure is reported INSTEAD of a document: no print site lies on a way to it
			// (the error report that follows a failure would be appended to the JSON text)
			after := ""
			for _, vi := range prints {
				if where(vi) == ret.Block() || reachableFrom(where(vi), nil)[ret.Block()] {
					after = p.instrPos(vi.in)
				}
			}
			r.check(after == "", rule, key+":failure-without-document", p.instrPos(ret), "no document is printed on the way to a failure", "a failure is returned after a JSON document may already have been printed ("+after+"): the error report follows the document on the same output and the exit status is non-zero although the errors were delivered as JSON")
			continue
		}
		n := 0
		for _, vi := range prints {
			if where(vi).Dominates(ret.Block()) {
				n++
			}
		}
		r.check(n == 1, rule, key+":one-document", p.instrPos(ret), "exactly one document was printed before returning success", fmt.Sprintf("%d documents are printed on a path that returns success", n))
	}
	// other read errors are returned
	msg, how := p.checkForwarding(run, rErr, lastResultIdx)
	if msg != "" {
		// the parser-errors edge legitimately returns nil: accept when the only nil return on the
		// error edge is dominated by the error document
		okExc := true
		for _, ret := range returnsOf(run) {
			if knownNonNil(ret.Block(), rErr) && isNilConst(retResult(ret, 0)) {
				if errPrint == nil || !errPrint.Dominates(ret.Block()) {
					okExc = false
				}
			}
			if knownNonNil(ret.Block(), rErr) && !isNilConst(retResult(ret, 0)) && !sameValue(retResult(ret, 0), rErr) {
				okExc = false
			}
		}
		r.check(okExc, rule, "read:other-errors", p.instrPos(read), "non-parser failures are returned; parser errors end in the error document", "a read failure is swallowed: "+msg)
	} else {
		r.ok(rule, "read:other-errors", p.instrPos(read), "read failures are returned (%s)", how)
	}
	// --now applied with error returned: P12-now-applied covers; check presence here
	an := p.method("klog/app/cli/util", "NowArgs", "ApplyNow")
	if an != nil {
		vcs := virtualCallsTo(run, an)
		okNow := len(vcs) == 1
		var cs []ssa.CallInstruction
		if okNow {
			cs = []ssa.CallInstruction{vcs[0].call}
		}
		if okNow {
			e := resultOf(cs[0], 0)
			if e == nil {
				okNow = false
			} else if h := cs[0].Parent(); h != run && len(vcs[0].chain) == 1 {
				// applied inside a helper: the helper returns the error, and so does Run
				if m2, _ := p.checkForwarding(h, e, lastResultIdx); m2 != "" {
					okNow = false
				}
				hc := vcs[0].chain[0]
				if he := resultOf(hc, errResultIndex(hc.Common().Signature())); he == nil {
					okNow = false
				} else if m3, _ := p.checkForwarding(run, he, lastResultIdx); m3 != "" {
					okNow = false
				}
				ht.ctx[originFn(h)] = hc
			} else if m2, _ := p.checkForwarding(run, e, lastResultIdx); m2 != "" {
				okNow = false
			}
			els := cs[0].Common().Args[len(cs[0].Common().Args)-1]
			// the records read, possibly already filtered/sorted
			for i := 0; i < 4 && !sameValue(els, recs); i++ {
				c2, idx2 := callOf(els)
				if c2 == nil || idx2 != 0 || staticCallee(c2) == nil || (fnBase(staticCallee(c2)) != "ApplyFilter" && fnBase(staticCallee(c2)) != "ApplySort") {
					break
				}
				els = c2.Common().Args[len(c2.Common().Args)-1]
			}
			okNow = okNow && sameValue(els, recs)
		}
		r.check(okNow, rule, "now", p.pos(run.Pos()), "--now is applied to the records read and its error returned", "--now is not applied to the records read (or its error is dropped)")
	}
}

// isParamOrSpill: v is the parameter, or the address of the local copy a by-value parameter is
// spilled to when a pointer-receiver method is called on it.
func isParamOrSpill(v ssa.Value, par *ssa.Parameter) bool {
	v = strip(v)
	if v == ssa.Value(par) {
		return true
	}
	if a, ok := v.(*ssa.Alloc); ok {
		sts := storesTo(a)
		return len(sts) == 1 && strip(sts[0].val) == ssa.Value(par)
	}
	return false
}
