package main

// B4: hybrid call graph (VTA seeded with CHA, CHA fallback for interface invokes that VTA
// leaves empty) and reachability with one-level binding of function-typed parameters to the
// closure literally passed at the traversed call site.

import (
	"go/types"
	"sort"
	"strings"

	"golang.org/x/tools/go/callgraph"
	"golang.org/x/tools/go/callgraph/cha"
	"golang.org/x/tools/go/callgraph/vta"
	"golang.org/x/tools/go/ssa"
)

func (p *Prog) graph() *callgraph.Graph {
	if p.cg != nil {
		return p.cg
	}
	chag := cha.CallGraph(p.prog)
	cg := vta.CallGraph(p.allFns, chag)
	for f, n := range chag.Nodes {
		if f == nil {
			continue
		}
		has := map[ssa.CallInstruction]bool{}
		if vn := cg.Nodes[f]; vn != nil {
			for _, e := range vn.Out {
				has[e.Site] = true
			}
		}
		for _, e := range n.Out {
			if e.Site != nil && !has[e.Site] && e.Site.Common().IsInvoke() {
				callgraph.AddEdge(cg.CreateNode(f), e.Site, cg.CreateNode(e.Callee.Func))
			}
		}
	}
	p.cg = cg
	return cg
}

// calleesAt returns the possible callees of a call site according to the hybrid graph.
func (p *Prog) calleesAt(site ssa.CallInstruction) []*ssa.Function {
	if f := staticCallee(site); f != nil {
		return []*ssa.Function{f}
	}
	n := p.graph().Nodes[site.Parent()]
	if n == nil {
		return nil
	}
	var out []*ssa.Function
	seen := map[*ssa.Function]bool{}
	for _, e := range n.Out {
		if e.Site == site && !seen[e.Callee.Func] {
			seen[e.Callee.Func] = true
			out = append(out, e.Callee.Func)
		}
	}
	// precision: the receiver is the direct result of a function that always returns one
	// concrete type -> keep only that type's method
	if site.Common().IsInvoke() && len(out) > 1 {
		if c, idx := callOf(site.Common().Value); c != nil && idx == 0 {
			if g := staticCallee(c); g != nil && p.inMod(g) {
				if ct := concreteReturnType(g); ct != nil {
					var keep []*ssa.Function
					for _, f := range out {
						if f.Signature.Recv() != nil && types.Identical(derefType(f.Signature.Recv().Type()), derefType(ct)) {
							keep = append(keep, f)
						}
					}
					if len(keep) > 0 {
						out = keep
					}
				}
			}
		}
	}
	sort.Slice(out, func(i, j int) bool { return out[i].String() < out[j].String() })
	return out
}

// reachState is a function together with the closures bound to its function-typed
// parameters (index -> function), the one level of context the traversal keeps.
type reachState struct {
	fn   *ssa.Function
	bind string // canonical encoding of bindings
}

type reachInfo struct {
	fn      *ssa.Function
	from    *ssa.Function
	site    ssa.CallInstruction
	binding map[int]*ssa.Function
}

type Reach struct {
	p     *Prog
	seen  map[reachState]*reachInfo
	funcs map[*ssa.Function]*reachInfo // first way each function was reached
	// skipSite lets a rule remove particular call sites from the traversal.
	skipSite func(ssa.CallInstruction) bool
	// skipFn stops descent into a function (it is still recorded as reached).
	skipFn func(*ssa.Function) bool
}

func encodeBind(b map[int]*ssa.Function) string {
	if len(b) == 0 {
		return ""
	}
	var ks []int
	for k := range b {
		ks = append(ks, k)
	}
	sort.Ints(ks)
	var sb strings.Builder
	for _, k := range ks {
		sb.WriteString(string(rune('a'+k)) + "=" + b[k].String() + ";")
	}
	return sb.String()
}

// funcLiteral resolves an argument to the function it literally denotes, if any.
func funcLiteral(v ssa.Value) *ssa.Function {
	v = deref(v)
	switch x := v.(type) {
	case *ssa.MakeClosure:
		return boundTarget(x.Fn.(*ssa.Function))
	case *ssa.Function:
		return boundTarget(x)
	}
	return nil
}

func (p *Prog) reach(roots []*ssa.Function, skipSite func(ssa.CallInstruction) bool, skipFn func(*ssa.Function) bool) *Reach {
	r := &Reach{p: p, seen: map[reachState]*reachInfo{}, funcs: map[*ssa.Function]*reachInfo{}, skipSite: skipSite, skipFn: skipFn}
	var queue []*reachInfo
	push := func(ri *reachInfo) {
		st := reachState{ri.fn, encodeBind(ri.binding)}
		if r.seen[st] != nil {
			return
		}
		r.seen[st] = ri
		if r.funcs[ri.fn] == nil {
			r.funcs[ri.fn] = ri
		}
		queue = append(queue, ri)
	}
	for _, f := range roots {
		push(&reachInfo{fn: f})
	}
	for len(queue) > 0 {
		ri := queue[0]
		queue = queue[1:]
		f := ri.fn
		if !p.inMod(f) || len(f.Blocks) == 0 {
			continue // do not descend into the standard library / third-party code
		}
		if skipFn != nil && skipFn(f) {
			continue
		}
		for _, fun := range []*ssa.Function{f} {
			eachInstr(fun, func(in ssa.Instruction) {
				site, ok := in.(ssa.CallInstruction)
				if !ok {
					// closures created here and not called directly may still escape:
					// they are reached through VTA edges at their dynamic call sites.
					return
				}
				if skipSite != nil && skipSite(site) {
					return
				}
				var callees []*ssa.Function
				cc := site.Common()
				// dynamic call on a bound function-typed parameter?
				if !cc.IsInvoke() && staticCallee(site) == nil {
					if prm, ok := strip(cc.Value).(*ssa.Parameter); ok && ri.binding != nil {
						for i, q := range f.Params {
							if q == prm {
								if b := ri.binding[i]; b != nil {
									callees = []*ssa.Function{b}
								}
							}
						}
					}
				}
				if callees == nil {
					callees = p.calleesAt(site)
				}
				for _, g := range callees {
					// bind function-literal arguments to g's parameters
					var binding map[int]*ssa.Function
					off := 0
					if cc.IsInvoke() {
						off = 1 // callee's Params[0] is the receiver
					}
					for ai, a := range cc.Args {
						if _, isFn := a.Type().Underlying().(*types.Signature); !isFn {
							continue
						}
						var lit *ssa.Function
						if prm, ok := strip(a).(*ssa.Parameter); ok && ri.binding != nil {
							// pass a bound parameter along
							for i, q := range f.Params {
								if q == prm {
									lit = ri.binding[i]
								}
							}
						}
						if lit == nil {
							lit = funcLiteral(a)
						}
						if lit != nil && ai+off < len(g.Params) {
							if binding == nil {
								binding = map[int]*ssa.Function{}
							}
							binding[ai+off] = lit
						}
					}
					push(&reachInfo{fn: g, from: f, site: site, binding: binding})
				}
			})
		}
	}
	return r
}

func (r *Reach) has(f *ssa.Function) bool { return r.funcs[f] != nil }

// path returns the call chain root -> ... -> f as names.
func (r *Reach) path(f *ssa.Function) []string {
	var out []string
	for i := 0; f != nil && i < 64; i++ {
		out = append([]string{fnName(f)}, out...)
		ri := r.funcs[f]
		if ri == nil {
			break
		}
		f = ri.from
	}
	return out
}

// moduleFuncs returns the reached module functions with bodies, in deterministic order.
func (r *Reach) moduleFuncs() []*ssa.Function {
	var out []*ssa.Function
	for f := range r.funcs {
		if r.p.inMod(f) && len(f.Blocks) > 0 {
			out = append(out, f)
		}
	}
	sort.Slice(out, func(i, j int) bool { return out[i].String() < out[j].String() })
	return out
}

// ---------------------------------------------------------------------------------------------
// Anchors discovered from types

// commandRuns returns the Run(app.Context) methods of the command structs in klog/app/cli.
func (p *Prog) commandRuns() map[string]*ssa.Function {
	out := map[string]*ssa.Function{}
	pk := p.pkg("klog/app/cli")
	if pk == nil {
		return out
	}
	sc := pk.Types.Scope()
	for _, name := range sc.Names() {
		tn, ok := sc.Lookup(name).(*types.TypeName)
		if !ok {
			continue
		}
		named, ok := tn.Type().(*types.Named)
		if !ok {
			continue
		}
		for i := 0; i < named.NumMethods(); i++ {
			m := named.Method(i)
			if m.Name() != "Run" {
				continue
			}
			sig := m.Type().(*types.Signature)
			if sig.Params().Len() == 1 && typeNameOf(sig.Params().At(0).Type()) == "Context" {
				if f := p.prog.FuncValue(m); f != nil {
					out[name] = f
				}
			}
		}
	}
	return out
}

// implementations of an interface method: all module methods named `method` on named types
// whose method set implements the interface.
func (p *Prog) implsOf(pkgSuffix, iface, method string) []*ssa.Function {
	in := p.namedType(pkgSuffix, iface)
	if in == nil {
		return nil
	}
	it, ok := in.Underlying().(*types.Interface)
	if !ok {
		return nil
	}
	var out []*ssa.Function
	for path, pk := range p.all {
		if !strings.HasPrefix(path, modPath) {
			continue
		}
		sc := pk.Types.Scope()
		for _, name := range sc.Names() {
			tn, ok := sc.Lookup(name).(*types.TypeName)
			if !ok || tn.IsAlias() {
				continue
			}
			named, ok := tn.Type().(*types.Named)
			if !ok || types.IsInterface(named) || named.TypeParams().Len() > 0 {
				continue
			}
			for _, t := range []types.Type{named, types.NewPointer(named)} {
				if types.Implements(t, it) {
					ms := p.prog.MethodSets.MethodSet(t)
					if sel := ms.Lookup(nil, method); sel != nil {
						if f := p.prog.MethodValue(sel); f != nil {
							// unwrap synthetic wrappers to the declared method
							out = append(out, f)
						}
					} else if sel := ms.Lookup(pk.Types, method); sel != nil {
						if f := p.prog.MethodValue(sel); f != nil {
							out = append(out, f)
						}
					}
					break
				}
			}
		}
	}
	sort.Slice(out, func(i, j int) bool { return out[i].String() < out[j].String() })
	return out
}

func derefType(t types.Type) types.Type {
	if p, ok := t.Underlying().(*types.Pointer); ok {
		return p.Elem()
	}
	return t
}

// concreteReturnType: every return of g boxes a value of one and the same concrete type.
func concreteReturnType(g *ssa.Function) types.Type {
	var ct types.Type
	for _, ret := range returnsOf(g) {
		if len(ret.Results) != 1 {
			return nil
		}
		v := retResult(ret, 0)
		for {
			if ch, ok := v.(*ssa.ChangeInterface); ok {
				v = ch.X
				continue
			}
			break
		}
		mi, ok := v.(*ssa.MakeInterface)
		if !ok {
			return nil
		}
		t := mi.X.Type()
		if ct == nil {
			ct = t
		} else if !types.Identical(ct, t) {
			return nil
		}
	}
	return ct
}
