package main

// C10 — syntax errors are reported at the right place and can always be displayed.

import (
	"fmt"
	"go/token"
	"go/types"
	"strings"

	"golang.org/x/tools/go/ssa"
)

func init() {
	register(&propSpec{
		id:    "C10",
		level: "other",
		explain: "Decided on the SSA program: (P10-epoch) for every error raised in the record parser, the line number is taken from the line-number closure, and on no path between reading the line the error's position/length are derived from and evaluating that closure does the line cursor advance (otherwise the error names the following line, or a line past the block); " +
			"(P10-accessors) the error object stores line/position/length/title/details where its accessors read them, LineText() indexes the error's own block with the error's own line, Column() = Position()+1, and the terminal and JSON renderings are computed from those accessors of each error in turn; " +
			"(P10-order) error accumulators only grow at the end, starting empty, in the serial parser, the merge of the parallel parser and ReadInputs; (P10-renumber = P07-renumber) blocks are renumbered after the parallel merge. " +
			"Not covered: that positions/lengths stay inside the line, and that the first error is on the first non-conforming line (both need the parser evaluated on inputs).",
		rules: []ruleFn{ruleP10Epoch, ruleP10Accessors, ruleP10Order, ruleP10OneError, ruleP07Renumber},
	})
}

// ---------------------------------------------------------------------------------------------
// supergraph search inside one function and its immediately-invoked closures

type superGraph struct {
	root     *ssa.Function
	callSite map[*ssa.Function]*ssa.Call   // closure -> its unique direct call (IIFE)
	dyn      map[*ssa.Call][]*ssa.Function // call of a closure value returned by an IIFE -> candidates
	sites    map[*ssa.Function][]*ssa.Call // closure / helper -> all its direct calls (a local function called several times)
}

func newSuperGraph(root *ssa.Function) *superGraph {
	sg := &superGraph{root: root, callSite: map[*ssa.Function]*ssa.Call{}, dyn: map[*ssa.Call][]*ssa.Function{}, sites: map[*ssa.Function][]*ssa.Call{}}
	count := map[*ssa.Function]int{}
	fam := map[*ssa.Function]bool{}
	for _, f := range withAnons(root) {
		fam[f] = true
	}
	for _, f := range withAnons(root) {
		eachInstr(f, func(in ssa.Instruction) {
			c, ok := in.(*ssa.Call)
			if !ok {
				return
			}
			if mc, ok := c.Call.Value.(*ssa.MakeClosure); ok {
				g := mc.Fn.(*ssa.Function)
				count[g]++
				sg.callSite[g] = c
				sg.sites[g] = append(sg.sites[g], c)
				return
			}
			if c.Call.IsInvoke() {
				return
			}
			// a local function held in a variable (assigned once) and called from here or from a
			// closure that captured the variable
			if u, ok := c.Call.Value.(*ssa.UnOp); ok && u.Op == token.MUL {
				if cell := cellOf(u.X); cell != nil {
					if sts := storesTo(cell); len(sts) == 1 {
						if mc, ok := sts[0].val.(*ssa.MakeClosure); ok {
							if g := mc.Fn.(*ssa.Function); fam[g] {
								count[g]++
								sg.callSite[g] = c
								sg.sites[g] = append(sg.sites[g], c)
								return
							}
						}
					}
				}
			}
			// a transparent helper (a former closure that became a function) with one call site
			if g, ok := c.Call.Value.(*ssa.Function); ok && fam[originFn(g)] && isHelper(g) {
				count[originFn(g)]++
				sg.callSite[originFn(g)] = c
				sg.sites[originFn(g)] = append(sg.sites[originFn(g)], c)
				return
			}
			// a closure value returned by an immediately-invoked closure and called later
			if ex, ok := strip(c.Call.Value).(*ssa.Extract); ok {
				if hc, ok := ex.Tuple.(*ssa.Call); ok {
					if hm, ok := hc.Call.Value.(*ssa.MakeClosure); ok {
						h := hm.Fn.(*ssa.Function)
						for _, ret := range returnsOf(h) {
							if ex.Index < len(ret.Results) {
								if gm, ok := strip(ret.Results[ex.Index]).(*ssa.MakeClosure); ok {
									g := gm.Fn.(*ssa.Function)
									if fam[g] {
										sg.dyn[c] = append(sg.dyn[c], g)
										count[g]++
										sg.callSite[g] = c
									}
								}
							}
						}
					}
				}
			}
		})
	}
	for g, n := range count {
		if n != 1 {
			delete(sg.callSite, g)
		}
	}
	return sg
}

func firstInstr(b *ssa.BasicBlock) ssa.Instruction {
	for len(b.Instrs) == 0 {
		if len(b.Succs) == 0 {
			return nil
		}
		b = b.Succs[0]
	}
	return b.Instrs[0]
}

// succs returns the instructions that can execute right after in.
func (sg *superGraph) succs(in ssa.Instruction) []ssa.Instruction {
	// entering an immediately-invoked closure
	if c, ok := in.(*ssa.Call); ok {
		if mc, ok := c.Call.Value.(*ssa.MakeClosure); ok {
			g := mc.Fn.(*ssa.Function)
			if sg.callSite[g] == c && len(g.Blocks) > 0 {
				return []ssa.Instruction{firstInstr(g.Blocks[0])}
			}
		}
	}
	if c, ok := in.(*ssa.Call); ok && len(sg.dyn[c]) > 0 {
		var out []ssa.Instruction
		for _, g := range sg.dyn[c] {
			if sg.callSite[g] == c && len(g.Blocks) > 0 {
				out = append(out, firstInstr(g.Blocks[0]))
			}
		}
		// the value may also be nil / another function: fall through as well
		return append(out, sg.after(in)...)
	}
	if ret, ok := in.(*ssa.Return); ok {
		g := ret.Parent()
		if c := sg.callSite[g]; c != nil {
			return sg.after(c)
		}
		return nil
	}
	return sg.after(in)
}

func (sg *superGraph) after(in ssa.Instruction) []ssa.Instruction {
	b := in.Block()
	for i, x := range b.Instrs {
		if x == in {
			if i+1 < len(b.Instrs) {
				return []ssa.Instruction{b.Instrs[i+1]}
			}
			var out []ssa.Instruction
			for _, s := range b.Succs {
				if f := firstInstr(s); f != nil {
					out = append(out, f)
				}
			}
			return out
		}
	}
	return nil
}

// crosses: is there an execution path from `from` to `to` that does not re-execute `from`
// and passes through an instruction of `marks`?
func (sg *superGraph) crosses(from, to ssa.Instruction, marks map[ssa.Instruction]bool) (bool, ssa.Instruction) {
	type st struct {
		in     ssa.Instruction
		marked ssa.Instruction
	}
	type key struct {
		in     ssa.Instruction
		marked bool
	}
	seen := map[key]bool{}
	queue := []st{}
	for _, s := range sg.succs(from) {
		queue = append(queue, st{s, nil})
	}
	for len(queue) > 0 {
		cur := queue[0]
		queue = queue[1:]
		if cur.in == nil || cur.in == from {
			continue
		}
		k := key{cur.in, cur.marked != nil}
		if seen[k] {
			continue
		}
		seen[k] = true
		m := cur.marked
		if cur.in == to {
			if m != nil {
				return true, m
			}
			continue // reaching E ends this path: a later evaluation belongs to another raise
		}
		if marks[cur.in] && m == nil {
			m = cur.in
		}
		for _, s := range sg.succs(cur.in) {
			queue = append(queue, st{s, m})
		}
	}
	return false, nil
}

// lineLoadsBehind collects the loads of txt.Line values that v (a position/length expression)
// is derived from: through Parseable accessors, NewParseable / NewIndentedParseable, PeekUntil ...
func lineLoadsBehind(v ssa.Value, out map[ssa.Instruction]bool, seen map[ssa.Value]bool, depth int) {
	if v == nil || seen[v] || depth > 14 {
		return
	}
	seen[v] = true
	switch x := v.(type) {
	case *ssa.Const, *ssa.Parameter, *ssa.Function, *ssa.Global:
		return
	case *ssa.UnOp:
		if x.Op == token.MUL {
			if typeNameOf(x.Type()) == "Line" && typePkgPath(x.Type()) == modPath+"/klog/parser/txt" {
				out[x] = true
				return
			}
			if c := cellOf(x.X); c != nil {
				for _, s := range storesTo(c) {
					lineLoadsBehind(s.val, out, seen, depth+1)
				}
				return
			}
			lineLoadsBehind(x.X, out, seen, depth+1)
			return
		}
		lineLoadsBehind(x.X, out, seen, depth+1)
	case *ssa.FieldAddr:
		lineLoadsBehind(x.X, out, seen, depth+1)
		// the struct may be a local whose fields are stored elsewhere
		if a, ok := x.X.(*ssa.Alloc); ok {
			for _, s := range storesTo(a) {
				lineLoadsBehind(s.val, out, seen, depth+1)
			}
		}
	case *ssa.Field:
		lineLoadsBehind(x.X, out, seen, depth+1)
	case *ssa.Alloc:
		for _, s := range storesTo(x) {
			lineLoadsBehind(s.val, out, seen, depth+1)
		}
		// fields written individually
		if x.Referrers() != nil {
			for _, ref := range *x.Referrers() {
				if fa, ok := ref.(*ssa.FieldAddr); ok && fa.Referrers() != nil {
					for _, r2 := range *fa.Referrers() {
						if st, ok := r2.(*ssa.Store); ok {
							lineLoadsBehind(st.Val, out, seen, depth+1)
						}
					}
				}
			}
		}
	case *ssa.FreeVar:
		if b := freeVarBinding(x); b != nil {
			lineLoadsBehind(b, out, seen, depth+1)
		}
	case *ssa.BinOp:
		lineLoadsBehind(x.X, out, seen, depth+1)
		lineLoadsBehind(x.Y, out, seen, depth+1)
	case *ssa.Extract:
		lineLoadsBehind(x.Tuple, out, seen, depth+1)
	case *ssa.Phi:
		for _, e := range x.Edges {
			lineLoadsBehind(e, out, seen, depth+1)
		}
	case *ssa.Call:
		if x.Call.IsInvoke() {
			lineLoadsBehind(x.Call.Value, out, seen, depth+1)
		}
		for _, a := range x.Call.Args {
			// the indentator only carries the record's indentation style, not a line
			if typeNameOf(a.Type()) == "Indentator" {
				continue
			}
			lineLoadsBehind(a, out, seen, depth+1)
		}
	case *ssa.Convert:
		lineLoadsBehind(x.X, out, seen, depth+1)
	case *ssa.ChangeType:
		lineLoadsBehind(x.X, out, seen, depth+1)
	case *ssa.MakeInterface:
		lineLoadsBehind(x.X, out, seen, depth+1)
	case *ssa.Slice:
		lineLoadsBehind(x.X, out, seen, depth+1)
	case *ssa.IndexAddr:
		lineLoadsBehind(x.X, out, seen, depth+1)
	case *ssa.Index:
		lineLoadsBehind(x.X, out, seen, depth+1)
	}
}

func ruleP10Epoch(p *Prog, r *Report) {
	const rule = "P10-epoch"
	parse := p.fn("klog/parser", "parse")
	newM := p.method("klog/parser", "HumanError", "New")
	if !r.anchorFn(rule, parse, "parser.parse") || !r.anchorFn(rule, newM, "parser.HumanError.New") {
		return
	}
	fam := withAnons(parse)
	// the line cursor: a cell of type []txt.Line with a store of cell[1:]
	var cursor *ssa.Alloc
	adv := map[ssa.Instruction]bool{}
	for _, f := range fam {
		eachInstr(f, func(in ssa.Instruction) {
			st, ok := in.(*ssa.Store)
			if !ok {
				return
			}
			sl, ok := st.Val.(*ssa.Slice)
			if !ok || sl.Low == nil {
				return
			}
			u, ok := sl.X.(*ssa.UnOp)
			if !ok || u.Op != token.MUL {
				return
			}
			c := cellOf(u.X)
			if c != nil && c == cellOf(st.Addr) && isSliceOf(c.Type().Underlying().(*types.Pointer).Elem(), "Line") {
				cursor = c
				adv[in] = true
			}
		})
	}
	if cursor == nil || len(adv) < 2 {
		r.undecided(rule, "cursor", p.pos(parse.Pos()), "the line cursor (a []txt.Line variable advanced by x = x[1:]) was not found in parse (advances: %d)", len(adv))
		return
	}
	// the line-number closure: a closure of parse that takes []txt.Line and returns int
	var nr *ssa.Function
	for _, f := range parse.AnonFuncs {
		if len(f.Params) == 1 && isSliceOf(f.Params[0].Type(), "Line") && f.Signature.Results().Len() == 1 && isIntType(f.Signature.Results().At(0).Type()) {
			nr = f
		}
	}
	if nr == nil {
		// not a closure: a function or (bound) method that is applied to the cursor and yields an int
		for _, f := range fam {
			eachInstr(f, func(in ssa.Instruction) {
				c, ok := in.(*ssa.Call)
				if !ok || !isIntType(c.Type()) || len(c.Call.Args) == 0 {
					return
				}
				last := c.Call.Args[len(c.Call.Args)-1]
				if u, isU := strip(last).(*ssa.UnOp); !isU || u.Op != token.MUL || cellOf(u.X) != cursor {
					return
				}
				g := funcLiteral(c.Call.Value)
				if g == nil {
					g = staticCallee(c)
				}
				if g != nil && len(g.Params) >= 1 && isSliceOf(g.Params[len(g.Params)-1].Type(), "Line") {
					nr = g
				}
			})
		}
	}
	if nr == nil {
		r.undecided(rule, "line-number", p.pos(parse.Pos()), "the line-number function (func([]txt.Line) int applied to the line cursor) was not found in parse")
		return
	}
	// nr must compute from the length of its argument only (monotone in the cursor)
	sg := newSuperGraph(parse)
	n := 0
	ordByCode := map[string]int{}
	for _, f := range fam {
		eachInstr(f, func(in ssa.Instruction) {
			c, ok := in.(*ssa.Call)
			if !ok || !sameFn(staticCallee(c), newM) {
				return
			}
			n++
			if k := len(sg.sites[f]); k > 1 {
				n += k - 1 // one creation site in a local function that serves k places
			}
			a := c.Call.Args // recv, block, line, start, length
			code := "?"
			if rc, _ := callOf(a[0]); rc != nil && staticCallee(rc) != nil {
				code = fnBase(staticCallee(rc))
			}
			ordByCode[fnName(f)+code]++
			key := fmt.Sprintf("%s:%s", fnName(f), code)
			if ordByCode[fnName(f)+code] > 1 {
				key += fmt.Sprintf("#%d", ordByCode[fnName(f)+code])
			}
			// E: the evaluation of the line-number closure behind the LINE argument
			var e *ssa.Call
			lv := deref(a[2])
			if cc, ok := lv.(*ssa.Call); ok && (funcLiteral(cc.Call.Value) == nr || staticCallee(cc) == nr) {
				e = cc
			}
			if e == nil {
				r.bad(rule, key+":line", p.instrPos(c), "the line of this error is not computed by the line-number closure (or through a variable assigned once from it)")
				return
			}
			// its argument must be the current cursor
			okArg := false
			if u, ok := strip(e.Call.Args[len(e.Call.Args)-1]).(*ssa.UnOp); ok && u.Op == token.MUL && cellOf(u.X) == cursor {
				okArg = true
			}
			if !okArg {
				r.bad(rule, key+":line", p.instrPos(e), "the line-number closure is not applied to the line cursor")
				return
			}
			// D: loads of the txt.Line the position/length derive from
			loads := map[ssa.Instruction]bool{}
			seen := map[ssa.Value]bool{}
			lineLoadsBehind(a[3], loads, seen, 0)
			lineLoadsBehind(a[4], loads, seen, 0)
			if len(loads) == 0 {
				r.ok(rule, key, p.instrPos(c), "line from the line-number closure; position/length are constants")
				return
			}
			for d := range loads {
				if bad, at := sg.crosses(d, e, adv); bad {
					r.bad(rule, key, p.instrPos(c), "the cursor advances (%s) between reading the line at %s and computing the error's line number at %s: the error names a later line", p.instrPos(at), p.instrPos(d), p.instrPos(e))
					return
				}
			}
			r.ok(rule, key, p.instrPos(c), "no cursor advance between reading the line (%d load(s)) and computing its number", len(loads))
		})
	}
	if n < 18 {
		r.undecided(rule, "floor", "-", "found %d raise sites in parse, expected at least 18", n)
	}
	// the closure: offset + initial count - len(arg)
	okNr := false
	for _, ret := range returnsOf(nr) {
		pl := polyOf(retResult(ret, 0))
		neg := 0
		for k, cf := range pl.Terms {
			if strings.Contains(k, "len") || cf == -1 {
				if cf == -1 {
					neg++
				}
			}
		}
		okNr = neg == 1 && len(pl.Terms) == 3 && pl.C == 0
	}
	r.check(okNr, rule, "line-number:formula", p.pos(nr.Pos()), "line = offset + initial count - remaining lines", "the line-number closure is not offset + initialCount - len(remaining)")
}

func ruleP10Accessors(p *Prog, r *Report) {
	const rule = "P10-accessors"
	// NewError stores its arguments in the matching fields
	ne := p.fn("klog/parser/txt", "NewError")
	if r.anchorFn(rule, ne, "txt.NewError") {
		want := map[string]int{"context": 0, "line": 1, "position": 2, "length": 3, "code": 4, "title": 5, "details": 6}
		got := 0
		eachInstr(ne, func(in ssa.Instruction) {
			if st, ok := in.(*ssa.Store); ok {
				if fa, ok := st.Addr.(*ssa.FieldAddr); ok {
					if i, known := want[fieldName(fa)]; known {
						if strip(st.Val) == ssa.Value(ne.Params[i]) {
							got++
						} else {
							r.bad(rule, "NewError:"+fieldName(fa), p.instrPos(st), "field %s of the error does not receive the corresponding argument", fieldName(fa))
						}
					}
				}
			}
		})
		r.check(got == 7, rule, "NewError", p.pos(ne.Pos()), "every argument is stored in its own field", fmt.Sprintf("only %d of 7 fields receive their argument", got))
	}
	// HumanError.New forwards block, line, start, length in place
	hn := p.method("klog/parser", "HumanError", "New")
	if r.anchorFn(rule, hn, "HumanError.New") && ne != nil {
		cs := callsTo(hn, ne)
		ok := len(cs) == 1
		if ok {
			a := cs[0].Common().Args
			for i := 0; i < 4; i++ {
				if strip(a[i]) != ssa.Value(hn.Params[i+1]) {
					ok = false
				}
			}
		}
		r.check(ok, rule, "HumanError.New", p.pos(hn.Pos()), "block, line, start, length are forwarded in place", "HumanError.New permutes or replaces block/line/start/length")
	}
	// accessors of txt.err
	type acc struct {
		name  string
		check func(v ssa.Value) bool
	}
	fld := func(name string) func(ssa.Value) bool {
		return func(v ssa.Value) bool { _, f := fieldLoad(v); return f == name }
	}
	accs := []acc{
		{"Position", fld("position")},
		{"Length", fld("length")},
		{"Title", fld("title")},
		{"Details", fld("details")},
		{"Code", fld("code")},
		{"Origin", fld("origin")},
		{"Column", func(v ssa.Value) bool {
			pl := polyX(v) // (e.position + 1, or through the Position() accessor)
			if pl.C != 1 || len(pl.Terms) != 1 {
				return false
			}
			for k, c := range pl.Terms {
				return c == 1 && strings.HasSuffix(k, ".position")
			}
			return false
		}},
		{"LineNumber", func(v ssa.Value) bool {
			pl := polyOf(v)
			if pl.C != 1 || len(pl.Terms) != 1 {
				return false
			}
			for k, c := range pl.Terms {
				n, recv, args, _ := methodCall(pl.leafV[k])
				_, rf := fieldLoad(recv)
				af := ""
				if len(args) == 1 {
					_, af = fieldLoad(args[0])
				}
				return c == 1 && n == "OverallLineIndex" && rf == "context" && af == "line"
			}
			return false
		}},
		{"LineText", func(v ssa.Value) bool {
			base, f := fieldLoad(v)
			if f != "Text" || base == nil {
				return false
			}
			ia, ok := strip(base).(*ssa.IndexAddr)
			if !ok {
				return false
			}
			_, idxF := fieldLoad(ia.Index)
			n, recv, _, _ := methodCall(ia.X)
			_, rf := fieldLoad(recv)
			return idxF == "line" && n == "Lines" && rf == "context"
		}},
		{"Message", func(v ssa.Value) bool {
			var leaves []ssa.Value
			concatLeaves(v, &leaves, 0)
			var names []string
			for _, l := range leaves {
				if _, f := fieldLoad(l); f != "" {
					names = append(names, f)
				}
			}
			return strings.Join(names, ",") == "title,details"
		}},
	}
	for _, a := range accs {
		f := p.method("klog/parser/txt", "err", a.name)
		if !r.anchorFn(rule, f, "txt.err."+a.name) {
			continue
		}
		for _, ret := range returnsOf(f) {
			r.check(a.check(retResult(ret, 0)), rule, "err."+a.name, p.instrPos(ret), a.name+"() reads the field the constructor wrote", a.name+"() does not return the value the error was constructed with")
		}
	}
	// OverallLineIndex = precedingLineCount + index
	oli := p.method("klog/parser/txt", "block", "OverallLineIndex")
	if r.anchorFn(rule, oli, "block.OverallLineIndex") {
		for _, ret := range returnsOf(oli) {
			pl := polyOf(retResult(ret, 0))
			ok := pl.C == 0 && len(pl.Terms) == 2
			for k, c := range pl.Terms {
				if c != 1 || !(strings.HasSuffix(k, ".precedingLineCount") || strings.HasPrefix(k, "param:")) {
					ok = false
				}
			}
			r.check(ok, rule, "block.OverallLineIndex", p.instrPos(ret), "overall index = preceding line count + index in block", "OverallLineIndex is not precedingLineCount + index")
		}
	}
	// JSON view
	tev := p.fn("klog/parser/json", "toErrorViews")
	if r.anchorFn(rule, tev, "json.toErrorViews") {
		want := map[string]string{"Line": "LineNumber", "Column": "Column", "Length": "Length", "Title": "Title", "Details": "Details", "File": "Origin"}
		got := map[string]bool{}
		eachInstrIn(withAnons(tev), func(in ssa.Instruction) {
			st, ok := in.(*ssa.Store)
			if !ok {
				return
			}
			fa, ok := st.Addr.(*ssa.FieldAddr)
			if !ok || typeNameOf(fa.X.Type()) != "ErrorView" {
				return
			}
			val := st.Val
			if isIntType(val.Type()) {
				if pl := polyOf(val); pl.C == 0 && len(pl.Terms) == 1 {
					for k, c := range pl.Terms {
						if c == 1 {
							val = pl.leafV[k]
						}
					}
				}
			}
			n, recv, _, _ := methodCall(val)
			coll := rangeElemOf(recv)
			if want[fieldName(fa)] == n && coll != nil && strip(coll) == ssa.Value(tev.Params[0]) {
				got[fieldName(fa)] = true
			} else {
				r.bad(rule, "json:"+fieldName(fa), p.instrPos(st), "JSON error field %s is not %s() of the error being rendered", fieldName(fa), want[fieldName(fa)])
			}
		})
		for k, v := range want {
			r.check(got[k], rule, "json:"+k, p.pos(tev.Pos()), k+" <- "+v+"()", "JSON error field "+k+" is not filled from "+v+"()")
		}
		// every error rendered, in order
		for _, ret := range returnsOf(tev) {
			// "nothing to render" may be answered up front
			if isNilConst(retResult(ret, 0)) {
				empty := false
				for _, g := range guardsOf(ret.Block()) {
					if x, isEmpty, isG := emptyGuard(g); isG && isEmpty && strip(x) == ssa.Value(tev.Params[0]) {
						empty = true
					}
				}
				r.check(empty, rule, "json:all-errors", p.instrPos(ret), "no view only when there is no error", "errors can be left out of the JSON document (nil is returned although there are errors)")
				continue
			}
			// the pre-sized spelling: make([]ErrorView, len(errs)) filled under the range index
			if puts, src, isFill := sliceFill(retResult(ret, 0)); isFill {
				only, _ := onlyLoopGuards(puts[0].Block())
				r.check(len(puts) == 1 && only && strip(src) == ssa.Value(tev.Params[0]), rule, "json:all-errors", p.instrPos(ret), "one view per error, in order", "not every error is rendered exactly once in order")
				continue
			}
			phis, ins := phiCycle(retResult(ret, 0))
			ok := len(phis) > 0
			nApp := 0
			for _, in := range ins {
				if isNilConst(in) {
					continue
				}
				// an empty slice with reserved capacity is as empty as nil
				if mk, isMk := in.(*ssa.MakeSlice); isMk {
					if k, isK := constInt(mk.Len); isK && k == 0 {
						continue
					}
				}
				c, isC := in.(*ssa.Call)
				if !isC {
					ok = false
					continue
				}
				if bi, isB := c.Call.Value.(*ssa.Builtin); !isB || bi.Name() != "append" {
					ok = false
					continue
				}
				nApp++
				if only, _ := onlyLoopGuards(c.Block()); !only {
					ok = false
				}
			}
			r.check(ok && nApp == 1, rule, "json:all-errors", p.instrPos(ret), "one view per error, in order", "not every error is rendered exactly once in order")
		}
	}
	// terminal rendering uses the same accessors of each error of err.All()
	pp := p.fn("klog/app/cli/util", "PrettifyParsingError")
	if r.anchorFn(rule, pp, "util.PrettifyParsingError") {
		used := map[string]bool{}
		eachInstrIn(withAnons(pp), func(in ssa.Instruction) {
			c, ok := in.(ssa.CallInstruction)
			if !ok || !c.Common().IsInvoke() || typeNameOf(c.Common().Value.Type()) != "Error" {
				return
			}
			coll := rangeElemOf(c.Common().Value)
			if coll == nil {
				return
			}
			if n, _, _, _ := methodCall(coll); n == "All" {
				used[c.Common().Method.Name()] = true
			}
		})
		for _, m := range []string{"LineNumber", "LineText", "Position", "Length", "Message"} {
			r.check(used[m], rule, "terminal:"+m, p.pos(pp.Pos()), "the terminal report shows "+m+"() of each error", "the terminal report does not use "+m+"() of the error it renders")
		}
		// caret line: Repeat(" ", Position()) then Repeat("^", Length())
		var reps []string
		eachInstrIn(withAnons(pp), func(in ssa.Instruction) {
			if c, ok := in.(ssa.CallInstruction); ok && staticCallee(c) != nil && staticCallee(c).String() == "strings.Repeat" {
				s, _ := constString(c.Common().Args[0])
				n, _, _, _ := methodCall(c.Common().Args[1])
				reps = append(reps, s+":"+n)
			}
		})
		r.check(strings.Join(reps, ",") == " :Position,^:Length", rule, "terminal:carets", p.pos(pp.Pos()), "carets: Position() blanks then Length() carets", "the caret line is not Position() blanks followed by Length() carets: "+strings.Join(reps, ","))
		// the quoted line: LineText() goes to the output character for character, on one line —
		// through nothing but one-for-one character replacements (tab -> blank), styling and %s
		bad := ""
		nQuote := 0
		var quoteHelperSites map[*ssa.Function][]ssa.Value
		eachInstrIn(withAnons(pp), func(in ssa.Instruction) {
			c, ok := in.(ssa.CallInstruction)
			if !ok || !c.Common().IsInvoke() || c.Common().Method.Name() != "LineText" || c.Value() == nil {
				return
			}
			nQuote++
			seen := map[ssa.Value]bool{}
			work := []ssa.Value{c.Value()}
			for len(work) > 0 && len(seen) < 200 {
				v := work[len(work)-1]
				work = work[:len(work)-1]
				if seen[v] || v.Referrers() == nil {
					continue
				}
				seen[v] = true
				for _, ref := range *v.Referrers() {
					switch x := ref.(type) {
					case *ssa.MakeInterface, *ssa.Phi, *ssa.ChangeType:
						work = append(work, x.(ssa.Value))
					case *ssa.BinOp:
						if x.Op == token.ADD {
							work = append(work, x)
						}
					case *ssa.Store:
						if ia, isIA := x.Addr.(*ssa.IndexAddr); isIA && x.Val == v {
							if al, isAl := ia.X.(*ssa.Alloc); isAl {
								for _, r2 := range *al.Referrers() {
									if sl, isSl := r2.(*ssa.Slice); isSl {
										work = append(work, sl)
									}
								}
							}
						}
					case *ssa.Return:
						// the result of a helper the line was handed to: on at its call sites
						for _, site := range quoteHelperSites[x.Parent()] {
							work = append(work, site)
						}
					case ssa.CallInstruction:
						g := staticCallee(x)
						name := calleeName(x)
						switch {
						case g != nil && isHelper(g) && len(g.Blocks) > 0 && x.Value() != nil && func() bool {
							for i, a := range x.Common().Args {
								if a == v && i < len(g.Params) {
									return true
								}
							}
							return false
						}():
							for i, a := range x.Common().Args {
								if a == v && i < len(g.Params) {
									work = append(work, g.Params[i])
								}
							}
							if quoteHelperSites == nil {
								quoteHelperSites = map[*ssa.Function][]ssa.Value{}
							}
							quoteHelperSites[g] = append(quoteHelperSites[g], x.Value())
						case g != nil && (g.String() == "strings.Replace" || g.String() == "strings.ReplaceAll") && x.Common().Args[0] == v:
							o, ok1 := constString(x.Common().Args[1])
							nw, ok2 := constString(x.Common().Args[2])
							if ok1 && ok2 && len([]rune(o)) == 1 && len([]rune(nw)) == 1 && nw != "\n" && nw != "\r" {
								work = append(work, x.Value())
							} else {
								bad = "a replacement that is not one character for one character at " + p.instrPos(x)
							}
						case g != nil && strings.HasPrefix(g.String(), "fmt.Sprint"):
							work = append(work, x.Value())
						case x.Common().IsInvoke() && (x.Common().Method.Name() == "Format" || x.Common().Method.Name() == "FormatAndRestore"), g != nil && (fnBase(g) == "Format" || fnBase(g) == "FormatAndRestore"):
							work = append(work, x.Value())
						case g != nil && (g.String() == "(*strings.Builder).WriteString" || strings.HasPrefix(g.String(), "fmt.Fprint")):
							// appended to the report that is being assembled
						case x.Value() != nil && x.Common().Signature().Results().Len() == 1 && isErrorType(x.Common().Signature().Results().At(0).Type()):
							// the finished report is wrapped into the error that is returned
						default:
							bad = name + " at " + p.instrPos(x)
						}
					}
				}
			}
		})
		r.check(bad == "" && nQuote > 0, rule, "terminal:quote", p.pos(pp.Pos()), "the faulty line is quoted character for character on one line", "the quoted line passes through "+bad+" before it is printed: it is no longer the line as it stands in the file, and the carets under it (drawn from Position() and Length() of the original line) point at other text")
	}
}

// accWeb walks the accumulator web of a slice value: phis, append(acc, ...) via its first
// argument, loads of variable cells via all their stores. Leaves are everything else.
func accWeb(v ssa.Value) (appends []*ssa.Call, leaves []ssa.Value) {
	seen := map[ssa.Value]bool{}
	var walk func(x ssa.Value)
	walk = func(x ssa.Value) {
		x = strip(x)
		if seen[x] {
			return
		}
		seen[x] = true
		switch y := x.(type) {
		case *ssa.Phi:
			for _, e := range y.Edges {
				walk(e)
			}
		case *ssa.Call:
			if bi, ok := y.Call.Value.(*ssa.Builtin); ok && bi.Name() == "append" {
				appends = append(appends, y)
				walk(y.Call.Args[0])
				return
			}
			leaves = append(leaves, x)
		case *ssa.UnOp:
			if y.Op == token.MUL {
				if c := cellOf(y.X); c != nil {
					sts := storesTo(c)
					if len(sts) == 0 {
						return // zero value: empty
					}
					for _, s := range sts {
						walk(s.val)
					}
					return
				}
			}
			leaves = append(leaves, x)
		default:
			leaves = append(leaves, x)
		}
	}
	walk(v)
	return
}

func ruleP10Order(p *Prog, r *Report) {
	const rule = "P10-order"
	type target struct {
		f    *ssa.Function
		name string
		idx  int // result index holding the accumulated errors/blocks; -1: find by type
		elem string
	}
	var ts []target
	add := func(f *ssa.Function, name string, elem string) {
		if f != nil {
			ts = append(ts, target{f, name, -1, elem})
		}
	}
	add(p.fn("klog/parser", "parse"), "parser.parse", "Error")
	add(p.method("klog/parser/engine", "SerialParser", "mapParse"), "SerialParser.mapParse", "")
	add(p.method("klog/parser/engine", "ParallelBatchParser", "Parse"), "ParallelBatchParser.Parse", "")
	add(p.fn("klog/parser/engine", "flatten"), "engine.flatten", "")
	if len(ts) < 4 {
		r.undecided(rule, "anchors", "-", "parse / mapParse / ParallelBatchParser.Parse / flatten not all found")
		return
	}
	n := 0
	for _, t := range ts {
		for ri, ret := range returnsOf(t.f) {
			for i, res := range ret.Results {
				if _, isSlice := res.Type().Underlying().(*types.Slice); !isSlice || isNilConst(res) {
					continue
				}
				apps, leaves := accWeb(res)
				if len(apps) == 0 {
					continue
				}
				n++
				key := fmt.Sprintf("%s:return#%d:result#%d", t.name, ri, i)
				bad := ""
				for _, l := range leaves {
					if isNilConst(l) {
						continue
					}
					if a, ok := l.(*ssa.Alloc); ok && len(storesTo(a)) == 0 {
						continue
					}
					if isEmptySliceLit(l) {
						continue // make([]T, 0, n): empty, with room
					}
					bad = "the accumulator is not only extended at its end: it is (re)built from " + l.String() + " at " + p.pos(l.Pos())
				}
				// the appended chunk must not be the accumulator itself
				for _, a := range apps {
					if len(a.Call.Args) > 1 {
						sub, _ := accWeb(a.Call.Args[1])
						for _, s := range sub {
							for _, a2 := range apps {
								if s == a2 {
									bad = "the accumulator is appended to something else (prepend) at " + p.instrPos(a)
								}
							}
						}
					}
				}
				r.check(bad == "", rule, key, p.instrPos(ret), fmt.Sprintf("accumulated by %d append-at-end site(s), starting empty", len(apps)), bad)
			}
		}
	}
	// ReadInputs: errors of all files in file order
	for _, f := range p.implsOf("klog/app", "Context", "ReadInputs") {
		for _, c := range callsTo(f, p.fn("klog/app", "NewParserErrors")) {
			apps, leaves := accWeb(c.Common().Args[0])
			bad := len(apps) == 0
			for _, l := range leaves {
				if !isNilConst(l) {
					if a, ok := l.(*ssa.Alloc); !ok || len(storesTo(a)) > 0 {
						bad = true
					}
				}
			}
			n++
			r.check(!bad, rule, fnName(f)+":errors", p.instrPos(c), "errors of all files are collected at the end of one list", "ReadInputs does not accumulate the parser errors in order")
		}
	}
	if n < 6 {
		r.undecided(rule, "floor", "-", "examined %d accumulators, expected at least 6", n)
	}
}
