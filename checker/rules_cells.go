package main

// P18-cells — cell accounting for the tables of report, tags and today.
//
// terminalformat.Table wraps to a new row after numberOfColumns cells; it does not know where
// the caller thinks a row ends. Rows line up only if every logical row emits exactly that many
// cells. The rule counts cells along the control-flow paths of the function that builds the
// table, once for every assignment of the command's boolean options that the paths branch on
// (a finite set: --diff, --chart, --now, --values, --count): the column count N handed to
// NewTable and every Skip(k) are evaluated under the assignment, a prefix written by an
// aggregator counts as P = NumberOfPrefixColumns() (a symbol), and
//   - every path through the body of the row loop emits 0 or exactly N cells,
//   - every loop-free path from NewTable to Collect emits a whole multiple of N,
//   - every implementation of report.Aggregator emits exactly NumberOfPrefixColumns() cells
//     in OnHeaderPrefix and in OnRowPrefix, on every path.
// No code is executed; conditions other than the option flags are explored both ways.

import (
	"fmt"
	"go/token"
	"go/types"
	"sort"
	"strings"

	"golang.org/x/tools/go/ssa"
)

// lin is a + b*P.
type lin struct{ a, b int64 }

func (x lin) add(y lin) lin { return lin{x.a + y.a, x.b + y.b} }
func (x lin) String() string {
	if x.b == 0 {
		return fmt.Sprint(x.a)
	}
	return fmt.Sprintf("%d+%d*prefix", x.a, x.b)
}

// multipleOf: x == k*n for an integer k >= 0.
func (x lin) multipleOf(n lin) (int64, bool) {
	if n.a == 0 && n.b == 0 {
		return 0, false
	}
	if n.b == 0 {
		if x.b != 0 || x.a%n.a != 0 {
			return 0, false
		}
		return x.a / n.a, x.a/n.a >= 0
	}
	if x.b%n.b != 0 {
		return 0, false
	}
	k := x.b / n.b
	return k, k >= 0 && x.a == k*n.a
}

type cellEnv struct {
	p     *Prog
	fn    *ssa.Function
	flags map[string]bool // option name -> value under this assignment
	opt   ssa.Value       // receiver / parameter holding the options
	phi   map[*ssa.Phi]ssa.Value
	fail  string
	// set by helperCells when the helper just counted emits either nothing or the count returned
	rowOrNothing bool
}

// flagOf: v is a load of a boolean option field (of the options parameter, possibly through
// embedded argument groups and captured by closures).
func flagOf(v ssa.Value) (string, bool) {
	v = strip(v)
	u, ok := v.(*ssa.UnOp)
	if !ok || u.Op != token.MUL {
		return "", false
	}
	fa, ok := u.X.(*ssa.FieldAddr)
	if !ok {
		return "", false
	}
	if bt, isB := u.Type().Underlying().(*types.Basic); !isB || bt.Kind() != types.Bool {
		return "", false
	}
	// base must be an options struct: a parameter or a captured parameter
	base := ssa.Value(fa)
	for {
		f2, isFA := base.(*ssa.FieldAddr)
		if !isFA {
			break
		}
		base = f2.X
	}
	base = strip(base)
	if ld, isLd := base.(*ssa.UnOp); isLd && ld.Op == token.MUL {
		base = strip(deref(ld))
		if base == nil {
			return "", false
		}
	}
	switch base.(type) {
	case *ssa.Parameter, *ssa.FreeVar:
		return fieldName(fa), true
	}
	return "", false
}

// condUnder evaluates a branch condition under the flag assignment: (value, known).
func (e *cellEnv) condUnder(c ssa.Value) (bool, bool) {
	c = strip(c)
	if name, ok := flagOf(c); ok {
		v, known := e.flags[name]
		return v, known
	}
	switch x := c.(type) {
	case *ssa.UnOp:
		if x.Op == token.NOT {
			v, k := e.condUnder(x.X)
			return !v, k
		}
	case *ssa.Const:
		if b, ok := constBool(x); ok {
			return b, true
		}
	}
	return false, false
}

// intUnder evaluates an int expression under the assignment and the phi choices of the path.
func (e *cellEnv) intUnder(v ssa.Value, depth int) (lin, bool) {
	if depth > 12 {
		return lin{}, false
	}
	// a helper or closure that computes the number: evaluate it under the assignment (before
	// value resolution looks through it and lands on a phi of ITS paths)
	if c, ok := v.(*ssa.Call); ok && !c.Call.IsInvoke() {
		if callee := rawStaticCallee(c); callee != nil && len(callee.Blocks) > 0 && gp != nil && gp.inMod(callee) {
			if r, ok := e.fnResultUnder(originFn(callee), depth+1); ok {
				return r, true
			}
		}
	}
	v = strip(v)
	if k, ok := constInt(v); ok {
		return lin{k, 0}, true
	}
	switch x := v.(type) {
	case *ssa.BinOp:
		a, ok1 := e.intUnder(x.X, depth+1)
		b, ok2 := e.intUnder(x.Y, depth+1)
		if !ok1 || !ok2 {
			return lin{}, false
		}
		switch x.Op {
		case token.ADD:
			return a.add(b), true
		case token.SUB:
			return lin{a.a - b.a, a.b - b.b}, true
		case token.MUL:
			if a.b == 0 {
				return lin{a.a * b.a, a.a * b.b}, true
			}
			if b.b == 0 {
				return lin{a.a * b.a, a.b * b.a}, true
			}
		}
	case *ssa.Phi:
		if ch, ok := e.phi[x]; ok {
			return e.intUnder(ch, depth+1)
		}
		// not on the current path (e.g. inside a closure evaluated separately)
		return lin{}, false
	case *ssa.UnOp:
		if x.Op == token.MUL {
			if d := deref(x); d != ssa.Value(x) && d != nil {
				return e.intUnder(d, depth+1)
			}
		}
	case *ssa.Call:
		if x.Call.IsInvoke() {
			if x.Call.Method.Name() == "NumberOfPrefixColumns" {
				return lin{0, 1}, true
			}
			return lin{}, false
		}
		// an immediately evaluated closure / module function without arguments that matter
		if callee := staticCallee(x); callee != nil && len(callee.Blocks) > 0 {
			return e.fnResultUnder(callee, depth+1)
		}
	}
	return lin{}, false
}

// fnResultUnder: the (single) int result of fn under the assignment; all feasible returns agree.
func (e *cellEnv) fnResultUnder(fn *ssa.Function, depth int) (lin, bool) {
	sub := &cellEnv{p: e.p, fn: fn, flags: e.flags, phi: map[*ssa.Phi]ssa.Value{}}
	var results []lin
	okAll := true
	var walk func(b, from *ssa.BasicBlock, seen map[*ssa.BasicBlock]bool)
	walk = func(b, from *ssa.BasicBlock, seen map[*ssa.BasicBlock]bool) {
		if seen[b] {
			okAll = false
			return
		}
		seen[b] = true
		defer delete(seen, b)
		saved := map[*ssa.Phi]ssa.Value{}
		for _, in := range b.Instrs {
			ph, ok := in.(*ssa.Phi)
			if !ok {
				break
			}
			for i, pb := range b.Preds {
				if pb == from {
					saved[ph] = sub.phi[ph]
					sub.phi[ph] = ph.Edges[i]
				}
			}
		}
		defer func() {
			for ph, v := range saved {
				if v == nil {
					delete(sub.phi, ph)
				} else {
					sub.phi[ph] = v
				}
			}
		}()
		switch t := b.Instrs[len(b.Instrs)-1].(type) {
		case *ssa.Return:
			if len(t.Results) != 1 {
				okAll = false
				return
			}
			v, ok := sub.intUnder(retResult(t, 0), depth+1)
			if !ok {
				okAll = false
				return
			}
			results = append(results, v)
		case *ssa.If:
			if v, known := sub.condUnder(t.Cond); known {
				if v {
					walk(b.Succs[0], b, seen)
				} else {
					walk(b.Succs[1], b, seen)
				}
			} else {
				walk(b.Succs[0], b, seen)
				walk(b.Succs[1], b, seen)
			}
		case *ssa.Jump:
			walk(b.Succs[0], b, seen)
		default:
			okAll = false
		}
	}
	walk(fn.Blocks[0], nil, map[*ssa.BasicBlock]bool{})
	if !okAll || len(results) == 0 {
		return lin{}, false
	}
	for _, x := range results[1:] {
		if x != results[0] {
			return lin{}, false
		}
	}
	return results[0], true
}

// cellsOf: how many cells the instruction emits (ok=false: a table escapes to code that is not counted).
func (e *cellEnv) cellsOf(in ssa.Instruction) (lin, bool, bool) {
	c, ok := in.(ssa.CallInstruction)
	if !ok {
		return lin{}, false, true
	}
	cc := c.Common()
	if cc.IsInvoke() {
		switch cc.Method.Name() {
		case "OnHeaderPrefix", "OnRowPrefix":
			return lin{0, 1}, true, true
		}
		return lin{}, false, true
	}
	callee := staticCallee(c)
	if callee == nil {
		return lin{}, false, true
	}
	if callee.Signature.Recv() != nil && typeNameOf(callee.Signature.Recv().Type()) == "Table" {
		switch callee.Name() {
		case "Cell", "CellL", "CellR", "Fill":
			return lin{1, 0}, true, true
		case "Skip":
			k, ok := e.intUnder(cc.Args[1], 0)
			if !ok {
				e.fail = "the argument of Skip at " + e.p.instrPos(c) + " could not be evaluated"
				return lin{}, true, false
			}
			return k, true, true
		case "Collect":
			return lin{}, false, true
		}
		return lin{}, false, true
	}
	// a module function that is handed the table: it must emit the same number of cells on
	// every path (under the same option assignment)
	for _, a := range cc.Args {
		if typeNameOf(derefType(a.Type())) == "Table" && strings.HasPrefix(pkgPathOfFn(callee), modPath) && len(callee.Blocks) > 0 {
			k, ok := e.helperCells(callee, 0)
			if !ok {
				if e.fail == "" {
					e.fail = "the table is handed to " + fnName(callee) + " at " + e.p.instrPos(c) + ", whose cells could not be counted"
				}
				return lin{}, true, false
			}
			return k, true, true
		}
	}
	return lin{}, false, true
}

// helperCells: the number of cells a helper emits; every path must agree; no loops.
func (e *cellEnv) helperCells(fn *ssa.Function, depth int) (lin, bool) {
	if depth > 3 {
		return lin{}, false
	}
	sub := &cellEnv{p: e.p, fn: fn, flags: e.flags, phi: map[*ssa.Phi]ssa.Value{}}
	var counts []lin
	okAll := true
	var walk func(b, from *ssa.BasicBlock, cnt lin, seen map[*ssa.BasicBlock]bool)
	walk = func(b, from *ssa.BasicBlock, cnt lin, seen map[*ssa.BasicBlock]bool) {
		if seen[b] {
			okAll = false
			e.fail = "helper " + fnName(fn) + " emits cells in a loop"
			return
		}
		seen[b] = true
		defer delete(seen, b)
		for _, in := range b.Instrs {
			if ph, ok := in.(*ssa.Phi); ok {
				for i, pb := range b.Preds {
					if pb == from {
						sub.phi[ph] = ph.Edges[i]
					}
				}
				continue
			}
			k, cnts, ok := sub.cellsOf(in)
			if !ok {
				okAll = false
				e.fail = sub.fail
				return
			}
			if cnts {
				cnt = cnt.add(k)
			}
		}
		switch t := b.Instrs[len(b.Instrs)-1].(type) {
		case *ssa.Return:
			counts = append(counts, cnt)
		case *ssa.If:
			if v, known := sub.condUnder(t.Cond); known {
				if v {
					walk(b.Succs[0], b, cnt, seen)
				} else {
					walk(b.Succs[1], b, cnt, seen)
				}
			} else {
				walk(b.Succs[0], b, cnt, seen)
				walk(b.Succs[1], b, cnt, seen)
			}
		default:
			for _, s := range b.Succs {
				walk(s, b, cnt, seen)
			}
		}
	}
	walk(fn.Blocks[0], nil, lin{}, map[*ssa.BasicBlock]bool{})
	if !okAll || len(counts) == 0 {
		return lin{}, false
	}
	// "a whole row or nothing": the helper builds one logical row and leaves it out on some
	// paths — as the body of a row loop may. The caller checks that it is a whole row.
	distinct := map[lin]bool{}
	for _, c := range counts {
		distinct[c] = true
	}
	zero := lin{}
	if len(distinct) == 2 && distinct[zero] && depth == 0 {
		for c := range distinct {
			if c != zero {
				e.rowOrNothing = true
				return c, true
			}
		}
	}
	for _, c := range counts[1:] {
		if c != counts[0] {
			e.fail = fmt.Sprintf("helper %s emits %s cells on one path and %s on another", fnName(fn), counts[0], c)
			return lin{}, false
		}
	}
	return counts[0], true
}

type cellsResult struct {
	n        lin
	nKnown   bool
	problems []string
	rows     int
	paths    int
}

// accountTable explores fn under one flag assignment.
func (p *Prog) accountTable(fn *ssa.Function, flags map[string]bool) *cellsResult {
	res := &cellsResult{}
	newTable := p.fn("klog/app/cli/terminalformat", "NewTable")
	e := &cellEnv{p: p, fn: fn, flags: flags, phi: map[*ssa.Phi]ssa.Value{}}
	addProblem := func(s string) {
		for _, x := range res.problems {
			if x == s {
				return
			}
		}
		if len(res.problems) < 6 {
			res.problems = append(res.problems, s)
		}
	}
	isBackEdge := func(from, to *ssa.BasicBlock) bool { return to.Dominates(from) }
	hasCells := func(b *ssa.BasicBlock) bool {
		for _, in := range b.Instrs {
			if _, counts, _ := e.cellsOf(in); counts {
				return true
			}
		}
		return false
	}
	loopHasCells := func(hdr *ssa.BasicBlock) bool {
		// blocks of the natural loop: reachable from hdr, can reach hdr again, dominated by hdr
		for _, b := range fn.Blocks {
			if b != hdr && hdr.Dominates(b) && reachableFrom(b, nil)[hdr] && hasCells(b) {
				return true
			}
		}
		return hasCells(hdr)
	}
	memberCache := map[[2]*ssa.BasicBlock]bool{}
	inBody := func(hdr, x *ssa.BasicBlock) bool {
		k := [2]*ssa.BasicBlock{hdr, x}
		if v, ok := memberCache[k]; ok {
			return v
		}
		v := x == hdr || (hdr.Dominates(x) && reachableFrom(x, nil)[hdr])
		memberCache[k] = v
		return v
	}
	type state struct {
		started bool // NewTable seen
		count   lin
		inLoop  *ssa.BasicBlock
		loopCnt lin
	}
	budget := 200000
	var walk func(b, from *ssa.BasicBlock, st state, onPath map[*ssa.BasicBlock]int)
	walk = func(b, from *ssa.BasicBlock, st state, onPath map[*ssa.BasicBlock]int) {
		budget--
		if budget < 0 {
			addProblem("path budget exhausted")
			return
		}
		// phi choices for this edge
		saved := map[*ssa.Phi]ssa.Value{}
		had := map[*ssa.Phi]bool{}
		for _, in := range b.Instrs {
			ph, ok := in.(*ssa.Phi)
			if !ok {
				break
			}
			for i, pb := range b.Preds {
				if pb == from {
					saved[ph], had[ph] = e.phi[ph]
					e.phi[ph] = ph.Edges[i]
				}
			}
		}
		defer func() {
			for ph, v := range saved {
				if had[ph] {
					e.phi[ph] = v
				} else {
					delete(e.phi, ph)
				}
			}
		}()
		onPath[b]++
		defer func() { onPath[b]-- }()
		for _, in := range b.Instrs {
			if c, ok := in.(ssa.CallInstruction); ok && sameFn(staticCallee(c), newTable) {
				n, okN := e.intUnder(c.Common().Args[0], 0)
				if !okN {
					addProblem("the column count given to NewTable at " + p.instrPos(c) + " could not be evaluated")
					return
				}
				if res.nKnown && res.n != n {
					addProblem(fmt.Sprintf("the column count differs between paths (%s / %s)", res.n, n))
				}
				res.n, res.nKnown = n, true
				st.started, st.count = true, lin{}
				continue
			}
			if !st.started {
				continue
			}
			e.rowOrNothing = false
			k, counts, ok := e.cellsOf(in)
			if !ok {
				addProblem(e.fail)
				return
			}
			if counts && e.rowOrNothing {
				// a helper that emits a whole row or nothing: fine at the start of a row of the row
				// loop, when what it emits IS a row (anything emitted besides it in this iteration
				// then makes the iteration too long, which the back edge reports)
				e.rowOrNothing = false
				zero := lin{}
				if st.inLoop == nil || st.loopCnt != zero || k != res.n {
					addProblem(fmt.Sprintf("a helper called at %s emits %s cells on some paths and none on others, which is not 'one whole row (%s cells) or nothing' at the start of a row", p.instrPos(in), k, res.n))
					return
				}
			}
			if counts {
				if st.inLoop != nil {
					st.loopCnt = st.loopCnt.add(k)
				} else {
					st.count = st.count.add(k)
				}
			}
			if c, isC := in.(ssa.CallInstruction); isC {
				if callee := staticCallee(c); callee != nil && callee.Name() == "Collect" && callee.Signature.Recv() != nil && typeNameOf(callee.Signature.Recv().Type()) == "Table" {
					res.paths++
					if k, isMul := st.count.multipleOf(res.n); !isMul || k < 0 {
						addProblem(fmt.Sprintf("a path to Collect (%s) emits %s cells outside the row loop, which is not a whole number of rows of %s", p.instrPos(c), st.count, res.n))
					}
					return
				}
			}
		}
		next := func(s *ssa.BasicBlock) {
			if isBackEdge(b, s) {
				if st.inLoop == s {
					// one iteration completed
					res.rows++
					zero := lin{}
					if st.loopCnt != zero && st.loopCnt != res.n {
						addProblem(fmt.Sprintf("an iteration of the row loop (back edge at block %d, %s) emits %s cells, a row has %s", b.Index, p.pos(firstPos(b)), st.loopCnt, res.n))
					}
					return
				}
				return // a loop without cells, or an inner loop: iteration ends here
			}
			if onPath[s] > 0 {
				return
			}
			ns := st
			if st.started && st.inLoop == nil && len(s.Preds) > 1 {
				// entering a loop header from outside?
				isHdr := false
				for _, pb := range s.Preds {
					if pb != b && s.Dominates(pb) {
						isHdr = true
					}
				}
				if isHdr && loopHasCells(s) {
					// explore the body as iterations, then carry on behind the loop with the
					// count unchanged
					ns.inLoop, ns.loopCnt = s, lin{}
				}
			}
			walk(s, b, ns, onPath)
		}
		switch t := b.Instrs[len(b.Instrs)-1].(type) {
		case *ssa.If:
			// leaving the loop through its header: continue outside with the outer count
			leave := func(s *ssa.BasicBlock) {
				if st.inLoop != nil && !inBody(st.inLoop, s) {
					// exit edge
					zero := lin{}
					if b != st.inLoop && st.loopCnt != zero && st.loopCnt != res.n {
						addProblem(fmt.Sprintf("the row loop is left after %s cells of a row of %s (block %d)", st.loopCnt, res.n, b.Index))
					}
					ns := st
					ns.inLoop, ns.loopCnt = nil, lin{}
					if onPath[s] == 0 {
						walk(s, b, ns, onPath)
					}
					return
				}
				next(s)
			}
			if st.inLoop != nil && b == st.inLoop {
				// at the header: the exit edge leaves the loop, the other starts an iteration
				for _, s := range b.Succs {
					if s != st.inLoop && inBody(st.inLoop, s) {
						it := st
						it.loopCnt = lin{}
						walk(s, b, it, onPath)
					} else {
						leave(s)
					}
				}
				return
			}
			if v, known := e.condUnder(t.Cond); known {
				if v {
					leave(b.Succs[0])
				} else {
					leave(b.Succs[1])
				}
			} else {
				leave(b.Succs[0])
				leave(b.Succs[1])
			}
		case *ssa.Jump:
			if st.inLoop != nil && !inBody(st.inLoop, b.Succs[0]) {
				zero := lin{}
				if st.loopCnt != zero && st.loopCnt != res.n {
					addProblem(fmt.Sprintf("the row loop is left after %s cells of a row of %s (block %d)", st.loopCnt, res.n, b.Index))
				}
				ns := st
				ns.inLoop, ns.loopCnt = nil, lin{}
				walk(b.Succs[0], b, ns, onPath)
				return
			}
			next(b.Succs[0])
		case *ssa.Return, *ssa.Panic:
			return
		default:
			for _, s := range b.Succs {
				next(s)
			}
		}
	}
	walk(fn.Blocks[0], nil, state{}, map[*ssa.BasicBlock]int{})
	return res
}

func firstPos(b *ssa.BasicBlock) token.Pos {
	for _, in := range b.Instrs {
		if in.Pos().IsValid() {
			return in.Pos()
		}
	}
	return token.NoPos
}

// tableFlags: the boolean options that conditions in fn (and its closures) test.
func tableFlags(fn *ssa.Function) []string {
	set := map[string]bool{}
	for _, f := range withAnons(fn) {
		for _, b := range f.Blocks {
			if iff, ok := b.Instrs[len(b.Instrs)-1].(*ssa.If); ok {
				c := strip(iff.Cond)
				if u, isU := c.(*ssa.UnOp); isU && u.Op == token.NOT {
					c = strip(u.X)
				}
				if name, ok := flagOf(c); ok {
					set[name] = true
				}
			}
		}
	}
	var out []string
	for k := range set {
		out = append(out, k)
	}
	sort.Strings(out)
	return out
}

func ruleP18Cells(p *Prog, r *Report) {
	const rule = "P18-cells"
	newTable := p.fn("klog/app/cli/terminalformat", "NewTable")
	if !r.anchorFn(rule, newTable, "terminalformat.NewTable") {
		return
	}
	// A: aggregators
	nAgg := 0
	for _, f := range p.srcFns {
		if pkgPathOfFn(f) != modPath+"/klog/app/cli/report" || f.Signature.Recv() == nil || f.Name() != "NumberOfPrefixColumns" {
			continue
		}
		tn := typeNameOf(f.Signature.Recv().Type())
		nAgg++
		k, okK := int64(0), false
		for _, ret := range returnsOf(f) {
			if c, isK := constInt(retResult(ret, 0)); isK && (!okK || c == k) {
				k, okK = c, true
			} else {
				okK = false
				break
			}
		}
		if !okK {
			r.undecided(rule, "aggregator:"+tn+":columns", p.pos(f.Pos()), "NumberOfPrefixColumns of %s is not a constant", tn)
			continue
		}
		for _, mn := range []string{"OnHeaderPrefix", "OnRowPrefix"} {
			m := p.method("klog/app/cli/report", tn, mn)
			if m == nil {
				r.undecided(rule, "aggregator:"+tn+":"+mn, p.pos(f.Pos()), "method %s.%s not found", tn, mn)
				continue
			}
			e := &cellEnv{p: p, fn: m, flags: map[string]bool{}, phi: map[*ssa.Phi]ssa.Value{}}
			bad := ""
			nPaths := 0
			var walk func(b *ssa.BasicBlock, cnt lin, seen map[*ssa.BasicBlock]bool)
			walk = func(b *ssa.BasicBlock, cnt lin, seen map[*ssa.BasicBlock]bool) {
				if seen[b] {
					bad = "a loop"
					return
				}
				seen[b] = true
				defer delete(seen, b)
				for _, in := range b.Instrs {
					kk, counts, ok := e.cellsOf(in)
					if !ok {
						bad = e.fail
						return
					}
					if counts {
						cnt = cnt.add(kk)
					}
				}
				if _, isRet := b.Instrs[len(b.Instrs)-1].(*ssa.Return); isRet {
					nPaths++
					if cnt != (lin{k, 0}) {
						bad = fmt.Sprintf("a path emits %s cells", cnt)
					}
					return
				}
				for _, s := range b.Succs {
					walk(s, cnt, seen)
				}
			}
			walk(m.Blocks[0], lin{}, map[*ssa.BasicBlock]bool{})
			r.check(bad == "" && nPaths > 0, rule, "aggregator:"+tn+":"+mn, p.pos(m.Pos()), fmt.Sprintf("every path (%d) emits exactly %d cells", nPaths, k), fmt.Sprintf("%s.%s does not emit exactly NumberOfPrefixColumns()=%d cells on every path: %s", tn, mn, k, bad))
		}
	}
	if nAgg < 5 {
		r.undecided(rule, "aggregators", "-", "expected five report aggregators, found %d", nAgg)
	}
	// B: the table builders
	nBuilders := 0
	for _, f := range p.srcFns {
		if !strings.HasPrefix(pkgPathOfFn(f), modPath+"/klog/app/cli") || f.Parent() != nil || len(callsTo(f, newTable)) == 0 {
			continue
		}
		nBuilders++
		flags := tableFlags(f)
		if len(flags) > 6 {
			r.undecided(rule, fnName(f), p.pos(f.Pos()), "%d option flags: too many assignments", len(flags))
			continue
		}
		var problems []string
		total, iters := 0, 0
		for mask := 0; mask < 1<<len(flags); mask++ {
			asg := map[string]bool{}
			var desc []string
			for i, n := range flags {
				asg[n] = mask&(1<<i) != 0
				if asg[n] {
					desc = append(desc, n)
				}
			}
			res := p.accountTable(f, asg)
			total += res.paths
			iters += res.rows
			if !res.nKnown && len(res.problems) == 0 {
				problems = append(problems, fmt.Sprintf("[%s] NewTable is not reached", strings.Join(desc, ",")))
			}
			for _, pr := range res.problems {
				problems = append(problems, fmt.Sprintf("[options: %s] %s", strings.Join(desc, ","), pr))
			}
		}
		sort.Strings(problems)
		if len(problems) > 3 {
			problems = problems[:3]
		}
		r.check(len(problems) == 0 && total > 0, rule, fnName(f), p.pos(f.Pos()), fmt.Sprintf("every row has the table's column count under all %d assignments of %v (%d paths to Collect, %d loop iterations' paths)", 1<<len(flags), flags, total, iters), "rows do not all have the table's column count: "+strings.Join(problems, "; "))
	}
	if nBuilders < 3 {
		r.undecided(rule, "builders", "-", "expected the report, tags and today tables, found %d", nBuilders)
	}
}
