package main

// C15 — calendar periods tile the calendar.

import (
	"fmt"
	"go/token"
	"strings"

	"golang.org/x/tools/go/ssa"
)

func init() {
	register(&propSpec{
		id:    "C15",
		level: "other",
		explain: "Decided on the SSA program: (P15-hash = P12-hash) two dates share a report bucket only via hashes that pack exactly the period's identifying components in wide-enough bit fields; " +
			"(P15-total) Period()/Previous() of the period kinds are total on 0000-9999: every date step (PlusDays) and explicit panic in them must be excluded by a guard on the calendar's end, and discarded NewDate errors must have arguments valid in every year — the steps that cannot be excluded are reported (known findings at the ends of the representable range); " +
			"(P15-guards) NewWeekFromString re-derives the ISO week of the date it built and rejects a mismatch (no roll-over), month/quarter/year patterns are rejected exactly when NewDate rejects them; " +
			"(P15-steps) the day steps used to walk out of a period can never skip a period (month 1..28, quarter 1..90, week exactly 7, boundary walks exactly 1); (P15-bounds) quarter/year/month periods begin and end on the table's (month, day) pairs. " +
			"Not covered: weekday / ISO-week arithmetic (delegated to civil and time), Quarter()'s formula, leap-year handling of civil.Date.",
		rules:   []ruleFn{ruleP12HashOnly, ruleP12Populate, ruleP15Utc, ruleP15Total, ruleP15Guards, ruleP15Steps, ruleP15Bounds},
		trusted: []string{"cloud.google.com/go/civil and time.ISOWeek implement the proleptic Gregorian calendar", "klog.NewDate accepts exactly the valid dates of years 0000-9999 (C16)"},
	})
}

func ruleP12HashOnly(p *Prog, r *Report) { ruleP12Hash(p, r) }

var periodKinds = []string{"Week", "Month", "Quarter", "Year"}

// daysInMonthMin: number of days a month has in every year.
var daysInMonthMin = [13]int64{0, 31, 28, 31, 30, 31, 30, 31, 31, 30, 31, 30, 31}

// calendarEndGuarded: the PlusDays(k) call is unreachable from any block in which the receiver
// is known to be the last (k>0: 9999-12-31) or first (k<0: 0000-01-01) representable date.
func calendarEndGuarded(f *ssa.Function, call ssa.CallInstruction, recv ssa.Value, k int64) bool {
	want := map[string]int64{"Year": 9999, "Month": 12, "Day": 31}
	if k < 0 {
		want = map[string]int64{"Year": 0, "Month": 1, "Day": 1}
	}
	match := func(g Guard, have map[string]bool) {
		bo, ok := g.Cond.(*ssa.BinOp)
		if !ok || bo.Op != token.EQL || !g.Pol {
			return
		}
		n, rv, _, _ := methodCall(bo.X)
		c, isK := constInt(bo.Y)
		if w, known := want[n]; known && isK && rv != nil && sameValue(rv, recv) && w == c {
			have[n] = true
		}
	}
	if calendarEndPruned(call, recv, want) {
		return true
	}
	for _, b := range f.Blocks {
		iff, ok := b.Instrs[len(b.Instrs)-1].(*ssa.If)
		if !ok {
			continue
		}
		have := map[string]bool{}
		for _, g := range guardsOf(b) {
			match(g, have)
		}
		// the edge on which this block's own test holds
		for si, succ := range b.Succs {
			h2 := map[string]bool{}
			for k := range have {
				h2[k] = true
			}
			for _, g := range flattenCond(iff.Cond, si == 0, iff) {
				match(g, h2)
			}
			if len(h2) == 3 {
				// the receiver is the calendar's end on this edge: the step must be unreachable from here
				return !reachableFrom(succ, nil)[call.Block()]
			}
		}
	}
	return false
}

// calendarEndPruned: assume the receiver IS the given date; every comparison of one of its
// accessors with a constant then has a known outcome. The step is excluded when no path from the
// receiver's definition to the call survives once the edges contradicting those outcomes are
// removed (a path that passes the definition again carries a new value and does not count).
func calendarEndPruned(call ssa.CallInstruction, recv ssa.Value, want map[string]int64) bool {
	rv := strip(recv)
	in, isIn := rv.(ssa.Instruction)
	if !isIn || in.Parent() != call.Parent() {
		return false
	}
	def := in.Block()
	if def == call.Block() {
		return false
	}
	var decideRef func(cond ssa.Value) (val, known bool)
	decide := func(cond ssa.Value) (val, known bool) {
		neg := false
		for {
			u, isU := cond.(*ssa.UnOp)
			if !isU || u.Op != token.NOT {
				break
			}
			cond, neg = u.X, !neg
		}
		if hc, isCall := cond.(*ssa.Call); isCall {
			// a predicate helper: when it has one way of saying yes (a conjunction), it says
			// yes iff every conjunct holds
			ex := expandBoolGuards([]Guard{{Cond: hc, Pol: true}}, 0)
			if len(ex) > 1 {
				all, anyFalse := true, false
				for _, g := range ex[1:] {
					v, known := decideRef(g.Cond)
					if !known {
						all = false
						continue
					}
					if v != g.Pol {
						anyFalse = true
					}
				}
				if anyFalse {
					return false != neg, true
				}
				if all {
					return true != neg, true
				}
			}
			return false, false
		}
		bo, ok := cond.(*ssa.BinOp)
		if !ok {
			return false, false
		}
		x, y, op := bo.X, bo.Y, bo.Op
		if _, isK := constInt(x); isK {
			x, y = y, x
			op = map[token.Token]token.Token{token.LSS: token.GTR, token.GTR: token.LSS, token.LEQ: token.GEQ, token.GEQ: token.LEQ, token.EQL: token.EQL, token.NEQ: token.NEQ}[op]
		}
		n, r2, args, _ := methodCall(x)
		c, isK := constInt(y)
		w, isAcc := want[n]
		if !isK || !isAcc || r2 == nil || len(args) != 0 || !sameValue(r2, recv) {
			return false, false
		}
		var v bool
		switch op {
		case token.EQL:
			v = w == c
		case token.NEQ:
			v = w != c
		case token.LSS:
			v = w < c
		case token.LEQ:
			v = w <= c
		case token.GTR:
			v = w > c
		case token.GEQ:
			v = w >= c
		default:
			return false, false
		}
		return v != neg, true
	}
	decideRef = decide
	seen := map[*ssa.BasicBlock]bool{def: true}
	work := []*ssa.BasicBlock{def}
	for len(work) > 0 {
		b := work[len(work)-1]
		work = work[:len(work)-1]
		succs := b.Succs
		if iff, ok := b.Instrs[len(b.Instrs)-1].(*ssa.If); ok && len(b.Succs) == 2 {
			if v, known := decide(iff.Cond); known {
				if v {
					succs = b.Succs[:1]
				} else {
					succs = b.Succs[1:]
				}
			}
		}
		for _, s := range succs {
			if s == call.Block() {
				return false
			}
			if !seen[s] {
				seen[s] = true
				work = append(work, s)
			}
		}
	}
	return true
}

func ruleP15Total(p *Prog, r *Report) {
	const rule = "P15-total"
	n := 0
	for _, kind := range periodKinds {
		for _, mname := range []string{"Period", "Previous"} {
			f := p.method("klog/service/period", kind, mname)
			if !r.anchorFn(rule, f, "period."+kind+"."+mname) {
				continue
			}
			ord := 0
			for _, vi := range virtualInstrs(f) {
				vi := vi
				vi.run(func() {
					in := vi.in
					switch x := in.(type) {
					case *ssa.Panic:
						n++
						key := fmt.Sprintf("%s.%s:panic", kind, mname)
						// discharged when the panic is unreachable for every valid date:
						// (a) default arm of a switch over Quarter() covering 1..4
						if switchCovers(x.Block(), "Quarter", 1, 4) {
							r.ok(rule, key, p.instrPos(x), "unreachable: the switch covers every value of Quarter() (1..4)")
							return
						}
						r.bad(rule, key, p.instrPos(x), "%s.%s panics for some valid date (explicit panic not excluded by a guard on the date)", kind, mname)
					case ssa.CallInstruction:
						name, recv, args, _ := methodCallOf(x)
						if name == "PlusDays" && len(args) == 1 {
							n++
							ord++
							// keyed by direction, not by position: every backward (forward) step of one
							// method fails for the same dates, however many call sites spell it
							k, isK := constInt(args[0])
							key := fmt.Sprintf("%s.%s:PlusDays(n)", kind, mname)
							// the closed form of a walk to a weekday: K − Weekday() days, i.e. back to
							// Monday (K = 1, 0…6 days back) or on to Sunday (K = 7, 0…6 days on) — it
							// fails for the same dates as the day-by-day walk in that direction
							if target, isW := weekdayStep(args[0], recv); isW && !isK {
								dirKey, dir, edge := "fwd", "forward", "9999-12-31"
								if target == 1 {
									dirKey, dir, edge = "back", "backward", "0000-01-01"
								}
								key = fmt.Sprintf("%s.%s:PlusDays(%s)", kind, mname, dirKey)
								r.bad(rule, key, p.instrPos(x), "%s.%s steps %s (PlusDays(%d - Weekday())) from a date that may lie at the end of the representable range (%s): PlusDays panics there", kind, mname, dir, target, edge)
								return
							}
							switch {
							case isK && k < 0:
								key = fmt.Sprintf("%s.%s:PlusDays(back)", kind, mname)
							case isK && k > 0:
								key = fmt.Sprintf("%s.%s:PlusDays(fwd)", kind, mname)
							case isK:
								key = fmt.Sprintf("%s.%s:PlusDays(0)", kind, mname)
							}
							if isK && k == 0 {
								r.ok(rule, key, p.instrPos(x), "PlusDays(0) is total")
								return
							}
							if d, inMonth := dayOfOwnMonth(recv); isK && inMonth && d+k >= 1 && d+k <= 28 {
								r.ok(rule, key, p.instrPos(x), "the step starts on day %d of the date's own month and stays inside it (day %d): always representable", d, d+k)
								return
							}
							if isK && calendarEndGuarded(f, x, recv, k) {
								r.ok(rule, key, p.instrPos(x), "the step is excluded for the last/first representable date by an explicit guard")
								return
							}
							dir := "forward"
							edge := "9999-12-31"
							if isK && k < 0 {
								dir, edge = "backward", "0000-01-01"
							}
							r.bad(rule, key, p.instrPos(x), "%s.%s steps %s (PlusDays(%v)) from a date that may lie at the end of the representable range (%s): PlusDays panics there", kind, mname, dir, describeConst(args[0]), edge)
							return
						}
						if g := staticCallee(x); g != nil && fnBase(g) == "NewDate" && pkgPathOfFn(g) == modPath+"/klog" {
							n++
							ord++
							key := fmt.Sprintf("%s.%s:NewDate(%s,%s)", kind, mname, describeConst(x.Common().Args[1]), describeConst(x.Common().Args[2]))
							cl, why := p.classifyErr(x)
							if cl == errChecked {
								r.ok(rule, key, p.instrPos(x), "error of NewDate is handled")
								return
							}
							// discarded error: arguments must be valid in every year
							a := x.Common().Args
							yOK := accessorOfDate(a[0], "Year")
							mVal, mK := constInt(a[1])
							dVal, dK := constInt(a[2])
							mAcc := accessorOfDate(a[1], "Month")
							ok := yOK && dK && dVal >= 1 && ((mK && mVal >= 1 && mVal <= 12 && dVal <= daysInMonthMin[mVal]) || (mAcc && dVal <= 28))
							r.check(ok, rule, key, p.instrPos(x), "NewDate(Year(), month, day) with a (month, day) pair that exists in every year", "error of NewDate discarded ("+why+") although its arguments are not valid in every year")
						}
					}
				})
			}
		}
	}
	if n < 15 {
		r.undecided(rule, "floor", "-", "examined %d partial operations in the period methods, expected at least 15", n)
	}
}

// dayOfOwnMonth: v is a date of the receiver's own year and month whose day of the month is a known
// constant: NewDate(<date>.Year(), <date>.Month(), d) with 1 <= d <= 28 (a day every month has), or
// such a date moved by a constant number of days that keeps it within 1..28 — it cannot leave the
// month, and PlusDays is total for it because every such day is representable.
func dayOfOwnMonth(v ssa.Value) (int64, bool) {
	for depth := 0; depth < 4; depth++ {
		if n, recv, a, _ := methodCall(v); n == "PlusDays" && len(a) == 1 && recv != nil {
			k, isK := constInt(a[0])
			if !isK {
				return 0, false
			}
			d, ok := dayOfOwnMonth(recv)
			if !ok || d+k < 1 || d+k > 28 {
				return 0, false
			}
			return d + k, true
		}
		c, idx := callOf(v)
		if c == nil || idx != 0 || staticCallee(c) == nil || fnBase(staticCallee(c)) != "NewDate" || pkgPathOfFn(staticCallee(c)) != modPath+"/klog" {
			return 0, false
		}
		a := c.Common().Args
		if len(a) != 3 || !accessorOfDate(a[0], "Year") || !accessorOfDate(a[1], "Month") {
			return 0, false
		}
		d, isK := constInt(a[2])
		if !isK || d < 1 || d > 28 {
			return 0, false
		}
		return d, true
	}
	return 0, false
}

func describeConst(v ssa.Value) string {
	if k, ok := constInt(v); ok {
		return fmt.Sprint(k)
	}
	return "n"
}

// accessorOfDate: v == <something of type Date>.<acc>() (possibly +/- const handled by caller).
func accessorOfDate(v ssa.Value, acc string) bool {
	n, recv, _, _ := methodCall(v)
	return n == acc && recv != nil && typeNameOf(recv.Type()) == "Date"
}

// switchCovers: block b is the fall-through of a switch on <date>.<acc>() whose cases cover lo..hi.
func switchCovers(b *ssa.BasicBlock, acc string, lo, hi int64) bool {
	covered := map[int64]bool{}
	for _, g := range guardsOf(b) {
		bo, ok := g.Cond.(*ssa.BinOp)
		if !ok || bo.Op != token.EQL || g.Pol {
			continue
		}
		if !accessorOfDate(bo.X, acc) {
			continue
		}
		if k, isK := constInt(bo.Y); isK {
			covered[k] = true
		}
	}
	for k := lo; k <= hi; k++ {
		if !covered[k] {
			return false
		}
	}
	return true
}

func ruleP15Guards(p *Prog, r *Report) {
	const rule = "P15-guards"
	// month / quarter / year: error of NewDate -> error
	for _, kind := range []string{"Month", "Quarter", "Year", "Week"} {
		f := p.fn("klog/service/period", "New"+kind+"FromString")
		if !r.anchorFn(rule, f, "period.New"+kind+"FromString") {
			continue
		}
		nd := 0
		for _, g := range withAnons(f) {
			eachInstr(g, func(in ssa.Instruction) {
				c, ok := in.(ssa.CallInstruction)
				if !ok || staticCallee(c) == nil || fnBase(staticCallee(c)) != "NewDate" {
					return
				}
				nd++
				key := fmt.Sprintf("%s:NewDate", kind)
				e := resultOf(c, 1)
				if e == nil {
					r.bad(rule, key, p.instrPos(c), "New%sFromString discards the error of NewDate: a non-existent period is rolled over instead of rejected", kind)
					return
				}
				msg, how := p.checkForwarding(g, e, lastResultIdx)
				r.check(msg == "", rule, key, p.instrPos(c), "invalid date -> error ("+how+")", "an invalid date does not make the pattern fail: "+msg)
			})
		}
		if nd == 0 {
			r.bad(rule, kind+":NewDate", p.pos(f.Pos()), "New%sFromString does not validate through NewDate", kind)
		}
		// the pattern must match: error on the non-matching edge
		okPat := false
		for _, b := range f.Blocks {
			iff, ok := b.Instrs[len(b.Instrs)-1].(*ssa.If)
			if !ok {
				continue
			}
			gs := flattenCond(iff.Cond, true, iff)
			if n, _, _, _ := methodCall(gs[0].Cond); n == "MatchString" {
				noMatch := b.Succs[1]
				if !gs[0].Pol {
					noMatch = b.Succs[0]
				}
				if rejectComplete(noMatch, func(ret *ssa.Return) string {
					if p.nilnessAt(ret.Block(), retResult(ret, 1), 0) != nnNonNil {
						return "nil error"
					}
					return ""
				}) == "" {
					okPat = true
				}
			}
		}
		r.check(okPat, rule, kind+":pattern", p.pos(f.Pos()), "a string that does not match the pattern is rejected", "New"+kind+"FromString does not reject strings that do not match its pattern")
	}
	// week: roll-over guard  WeekNumber(reference)#1 != week -> error
	f := p.fn("klog/service/period", "NewWeekFromString")
	if f != nil {
		okRoll := false
		for _, b := range f.Blocks {
			iff, ok := b.Instrs[len(b.Instrs)-1].(*ssa.If)
			if !ok {
				continue
			}
			bo, ok := iff.Cond.(*ssa.BinOp)
			if !ok || (bo.Op != token.NEQ && bo.Op != token.EQL) {
				continue
			}
			isWeekOfRef := func(v ssa.Value) bool {
				ex, ok := strip(v).(*ssa.Extract)
				if !ok || ex.Index != 1 {
					return false
				}
				n, _, _, _ := methodCall(ex.Tuple)
				return n == "WeekNumber"
			}
			isParsed := func(v ssa.Value) bool {
				c, idx := callOf(v)
				return c != nil && idx == 0 && staticCallee(c) != nil && staticCallee(c).String() == "strconv.Atoi"
			}
			if (isWeekOfRef(bo.X) && isParsed(bo.Y)) || (isWeekOfRef(bo.Y) && isParsed(bo.X)) {
				diff := b.Succs[0]
				if bo.Op == token.EQL {
					diff = b.Succs[1]
				}
				if rejectComplete(diff, func(ret *ssa.Return) string {
					if p.nilnessAt(ret.Block(), retResult(ret, 1), 0) != nnNonNil {
						return "nil error"
					}
					return ""
				}) == "" {
					// and the date tested is the one returned
					okRoll = true
				}
			}
		}
		r.check(okRoll, rule, "Week:rollover", p.pos(f.Pos()), "the ISO week of the constructed date is compared with the parsed number; a mismatch is rejected", "NewWeekFromString does not reject a week number that rolls over into another year")
	}
	// quarter: month = 3 * quarter
	q := p.fn("klog/service/period", "NewQuarterFromString")
	if q != nil {
		okQ := false
		eachInstr(q, func(in ssa.Instruction) {
			c, ok := in.(ssa.CallInstruction)
			if !ok || staticCallee(c) == nil || fnBase(staticCallee(c)) != "NewDate" {
				return
			}
			m := polyOf(c.Common().Args[1])
			d, isK := constInt(c.Common().Args[2])
			if m.C >= -2 && m.C <= 0 && len(m.Terms) == 1 && isK && d >= 1 && d <= 28 {
				for k, coef := range m.Terms {
					if coef == 3 && strings.Contains(k, "Atoi") {
						okQ = true
					}
				}
			}
		})
		r.check(okQ, rule, "Quarter:month", p.pos(q.Pos()), "quarter q is anchored at a month in 3q-2..3q", "the date built for quarter q does not lie in months 3q-2..3q")
	}
}

// weekStopOf: v is the date a walk in f stops at when its Weekday() equals w (the value tested
// by the loop's exit condition).
func weekStopOf(f *ssa.Function, v ssa.Value) (int64, bool) {
	var w int64
	found := false
	eachVInstr(f, func(in ssa.Instruction) {
		iff, ok := in.(*ssa.If)
		if !ok {
			return
		}
		bo, ok := iff.Cond.(*ssa.BinOp)
		if !ok || (bo.Op != token.EQL && bo.Op != token.NEQ) || !accessorOfDate(bo.X, "Weekday") {
			return
		}
		k, isK := constInt(bo.Y)
		if !isK {
			return
		}
		_, recv, _, _ := methodCall(bo.X)
		b := iff.Block()
		eq := b.Succs[0]
		if bo.Op == token.NEQ {
			eq = b.Succs[1]
		}
		if recv != nil && v != nil && (sameValue(recv, v) || strip(recv) == strip(v)) && !reachableFrom(eq, nil)[b] {
			w, found = k, true
		}
	})
	return w, found
}

func ruleP15Steps(p *Prog, r *Report) {
	const rule = "P15-steps"
	var derivedWeekEnds []int64
	type lim struct {
		kind, method string
		lo, hi       int64 // allowed |step| range
		sign         int64 // -1 backward, +1 forward, 0 either
	}
	for _, l := range []lim{
		{"Month", "Previous", 1, 28, -1},
		{"Quarter", "Previous", 1, 90, -1},
		{"Week", "Previous", 7, 7, -1},
		{"Week", "Period", 1, 1, 0},
		{"Month", "Period", 1, 1, 1},
	} {
		f := p.method("klog/service/period", l.kind, l.method)
		if !r.anchorFn(rule, f, l.kind+"."+l.method) {
			continue
		}
		ord := 0
		// (also the steps of a walking helper, once per call of the helper with its arguments)
		eachVInstr(f, func(in ssa.Instruction) {
			c, ok := in.(ssa.CallInstruction)
			if !ok {
				return
			}
			name, _, args, _ := methodCallOf(c)
			if name != "PlusDays" || len(args) != 1 {
				return
			}
			ord++
			key := fmt.Sprintf("%s.%s:step#%d", l.kind, l.method, ord)
			k, isK := constInt(args[0])
			if !isK {
				// K − Weekday() of the date stepped from: straight to weekday K of the same week
				_, recv0, _, _ := methodCallOf(c)
				if target, isW := weekdayStep(args[0], recv0); isW && l.kind == "Week" && l.method == "Period" && (target == 1 || target == 7) {
					r.ok(rule, key, p.instrPos(c), "%d - Weekday() days: straight to weekday %d of the same Monday-to-Sunday week", target, target)
					derivedWeekEnds = append(derivedWeekEnds, target)
					return
				}
				r.undecided(rule, key, p.instrPos(c), "non-constant day step")
				return
			}
			abs := k
			if abs < 0 {
				abs = -abs
			}
			okSign := l.sign == 0 || (l.sign < 0) == (k < 0)
			// the other end of a week computed directly: six days on from the Monday (six days back
			// from the Sunday) the walk has just stopped at
			if l.kind == "Week" && l.method == "Period" && abs == 6 {
				_, recv, _, _ := methodCallOf(c)
				if w, isStop := weekStopOf(f, recv); isStop && ((w == 1 && k == 6) || (w == 7 && k == -6)) {
					r.ok(rule, key, p.instrPos(c), "the other end of the week: %+d days from the weekday-%d end the walk stopped at", k, w)
					derivedWeekEnds = append(derivedWeekEnds, 8-w)
					return
				}
			}
			if l.kind == "Month" && l.method == "Period" {
				_, recv, _, _ := methodCallOf(c)
				if d, inMonth := dayOfOwnMonth(recv); inMonth && d+k >= 1 && d+k <= 28 {
					r.ok(rule, key, p.instrPos(c), "from day %d of the date's own month to day %d of it: inside every month", d, d+k)
					return
				}
			}
			r.check(okSign && abs >= l.lo && abs <= l.hi, rule, key, p.instrPos(c), fmt.Sprintf("step %d lies in the interval that can never skip a %s", k, strings.ToLower(l.kind)), fmt.Sprintf("a step of %d days can skip a %s (allowed: %d..%d %s)", k, strings.ToLower(l.kind), l.lo, l.hi, map[int64]string{-1: "backward", 0: "either way", 1: "forward"}[l.sign]))
		})
		if ord == 0 {
			r.bad(rule, l.kind+"."+l.method, p.pos(f.Pos()), "no day step found in %s.%s", l.kind, l.method)
		}
	}
	// the walks stop on the right condition
	wp := p.method("klog/service/period", "Week", "Period")
	if wp != nil {
		var ks []int64
		eachVInstr(wp, func(in ssa.Instruction) {
			iff, ok := in.(*ssa.If)
			if !ok {
				return
			}
			b := iff.Block()
			if bo, ok := iff.Cond.(*ssa.BinOp); ok && (bo.Op == token.EQL || bo.Op == token.NEQ) && accessorOfDate(bo.X, "Weekday") {
				if k, isK := constInt(bo.Y); isK {
					// the walk stops on the edge on which weekday == k
					eq := b.Succs[0]
					if bo.Op == token.NEQ {
						eq = b.Succs[1]
					}
					if !reachableFrom(eq, nil)[b] {
						ks = append(ks, k)
					}
				}
			}
		})
		ks = append(ks, derivedWeekEnds...)
		ok := len(ks) == 2 && ((ks[0] == 1 && ks[1] == 7) || (ks[0] == 7 && ks[1] == 1))
		r.check(ok, rule, "Week.Period:bounds", p.pos(wp.Pos()), "the week walks back to Monday (1) and forward to Sunday (7)", fmt.Sprintf("the week's bounds are weekdays %v, expected Monday=1 and Sunday=7", ks))
	}
	for _, pr := range [][2]string{{"Month", "Month"}, {"Quarter", "Quarter"}} {
		f := p.method("klog/service/period", pr[0], "Previous")
		if f == nil {
			continue
		}
		ok := false
		for _, b := range f.Blocks {
			iff, isIf := b.Instrs[len(b.Instrs)-1].(*ssa.If)
			if !isIf {
				continue
			}
			if bo, isB := iff.Cond.(*ssa.BinOp); isB && (bo.Op == token.NEQ || bo.Op == token.EQL) && accessorOfDate(bo.X, pr[1]) && accessorOfDate(bo.Y, pr[1]) {
				// leaving the loop when the accessor differs
				diff := b.Succs[0]
				if bo.Op == token.EQL {
					diff = b.Succs[1]
				}
				for _, in := range diff.Instrs {
					if _, isRet := in.(*ssa.Return); isRet {
						ok = true
					}
				}
			}
		}
		r.check(ok, rule, pr[0]+".Previous:stop", p.pos(f.Pos()), "stops at the first date whose "+strings.ToLower(pr[1])+" differs", pr[0]+".Previous does not stop at the first date with a different "+strings.ToLower(pr[1]))
	}
}

func ruleP15Bounds(p *Prog, r *Report) {
	const rule = "P15-bounds"
	// helper: describe a NewDate call as (yearIsOwn, month poly/const, day)
	type md struct {
		ownYear bool
		m, d    int64
		mAcc    bool
	}
	desc := func(v ssa.Value) (md, bool) {
		c, idx := callOf(v)
		if c == nil || idx != 0 || staticCallee(c) == nil || fnBase(staticCallee(c)) != "NewDate" {
			return md{}, false
		}
		a := c.Common().Args
		var out md
		out.ownYear = accessorOfDate(a[0], "Year")
		out.mAcc = accessorOfDate(a[1], "Month")
		out.m, _ = constInt(a[1])
		out.d, _ = constInt(a[2])
		return out, true
	}
	newPeriod := p.fn("klog/service/period", "NewPeriod")
	// Quarter
	qf := p.method("klog/service/period", "Quarter", "Period")
	if r.anchorFn(rule, qf, "Quarter.Period") && r.anchorFn(rule, newPeriod, "NewPeriod") {
		last := map[int64]int64{1: 31, 2: 30, 3: 30, 4: 31}
		seen := map[int64]bool{}
		for _, ret := range returnsOf(qf) {
			pSince, pUntil, ok := periodEnds(retResult(ret, 0), newPeriod)
			if !ok {
				continue
			}
			var q int64 = -1
			for _, g := range guardsOf(ret.Block()) {
				if bo, isB := g.Cond.(*ssa.BinOp); isB && bo.Op == token.EQL && g.Pol && accessorOfDate(bo.X, "Quarter") {
					q, _ = constInt(bo.Y)
				}
			}
			s, ok1 := desc(pSince)
			u, ok2 := desc(pUntil)
			good := ok1 && ok2 && s.ownYear && u.ownYear && q >= 1 && q <= 4 && s.m == 3*q-2 && s.d == 1 && u.m == 3*q && u.d == last[q]
			seen[q] = true
			r.check(good, rule, fmt.Sprintf("Quarter.Period:q%d", q), p.instrPos(ret), fmt.Sprintf("Q%d = %02d-01 .. %02d-%02d of the date's year", q, 3*q-2, 3*q, last[q]), fmt.Sprintf("Q%d does not span %02d-01 .. %02d-%02d of the date's own year", q, 3*q-2, 3*q, last[q]))
		}
		for q := int64(1); q <= 4; q++ {
			r.check(seen[q], rule, fmt.Sprintf("Quarter.Period:row%d", q), p.pos(qf.Pos()), "case present", fmt.Sprintf("no case for quarter %d", q))
		}
	}
	yf := p.method("klog/service/period", "Year", "Period")
	if r.anchorFn(rule, yf, "Year.Period") {
		for _, ret := range returnsOf(yf) {
			pSince, pUntil, ok := periodEnds(retResult(ret, 0), newPeriod)
			good := false
			if ok {
				s, ok1 := desc(pSince)
				u, ok2 := desc(pUntil)
				good = ok1 && ok2 && s.ownYear && u.ownYear && s.m == 1 && s.d == 1 && u.m == 12 && u.d == 31
			}
			r.check(good, rule, "Year.Period", p.instrPos(ret), "year = 01-01 .. 12-31 of the date's year", "the year period is not 01-01 .. 12-31 of the date's own year")
		}
	}
	mf := p.method("klog/service/period", "Month", "Period")
	if r.anchorFn(rule, mf, "Month.Period") {
		for _, ret := range returnsOf(mf) {
			pSince, pUntil, ok := periodEnds(retResult(ret, 0), newPeriod)
			good := false
			if ok {
				s, ok1 := desc(pSince)
				good = ok1 && s.ownYear && s.mAcc && s.d == 1
				// until: a phi over a date starting inside the month (day <= 28) and stepped by +1 while the month stays
				phis, ins := phiCycle(pUntil)
				okU := len(phis) > 0
				for _, in := range ins {
					if u, isD := desc(in); isD {
						if !(u.ownYear && u.mAcc && u.d >= 1 && u.d <= 28) {
							okU = false
						}
						continue
					}
					if _, inMonth := dayOfOwnMonth(in); inMonth {
						continue
					}
					if n, _, a, _ := methodCall(in); n == "PlusDays" && len(a) == 1 {
						continue
					}
					okU = false
				}
				good = good && okU
			}
			r.check(good, rule, "Month.Period", p.instrPos(ret), "month = day 1 .. last day reached by walking forward inside the month", "the month period does not begin on day 1 of the date's own month or is not walked from inside the month")
		}
		// the walk stops when the next day's month differs
		okStop := false
		for _, b := range mf.Blocks {
			iff, isIf := b.Instrs[len(b.Instrs)-1].(*ssa.If)
			if !isIf {
				continue
			}
			if bo, isB := iff.Cond.(*ssa.BinOp); isB && (bo.Op == token.NEQ || bo.Op == token.EQL) && accessorOfDate(bo.X, "Month") && accessorOfDate(bo.Y, "Month") {
				okStop = true
			}
			// the following day is the first of a month: the same test, read off the day
			if bo, isB := iff.Cond.(*ssa.BinOp); isB && (bo.Op == token.NEQ || bo.Op == token.EQL) && accessorOfDate(bo.X, "Day") {
				if k, isK := constInt(bo.Y); isK && k == 1 {
					if _, next, _, _ := methodCall(bo.X); next != nil {
						if n, _, a, _ := methodCall(next); n == "PlusDays" && len(a) == 1 {
							if st, isSt := constInt(a[0]); isSt && st == 1 {
								okStop = true
							}
						}
					}
				}
			}
		}
		r.check(okStop, rule, "Month.Period:stop", p.pos(mf.Pos()), "stops when the following day belongs to another month", "the month walk does not stop at the month's last day")
	}
	// Since()/Until() return what NewPeriod was given
	for _, pr := range [][2]string{{"Since", "since"}, {"Until", "until"}} {
		f := p.method("klog/service/period", "periodData", pr[0])
		if !r.anchorFn(rule, f, "periodData."+pr[0]) {
			continue
		}
		for _, ret := range returnsOf(f) {
			_, fld := fieldLoad(retResult(ret, 0))
			r.check(fld == pr[1], rule, "periodData."+pr[0], p.instrPos(ret), pr[0]+"() returns the "+pr[1]+" bound", pr[0]+"() does not return the "+pr[1]+" bound")
		}
	}
	if newPeriod != nil {
		ok := false
		eachInstr(newPeriod, func(in ssa.Instruction) {
			if st, isSt := in.(*ssa.Store); isSt {
				if fa, isFa := st.Addr.(*ssa.FieldAddr); isFa {
					if fieldName(fa) == "since" && strip(st.Val) == ssa.Value(newPeriod.Params[0]) {
						ok = true
					}
				}
			}
		})
		ok2 := false
		eachInstr(newPeriod, func(in ssa.Instruction) {
			if st, isSt := in.(*ssa.Store); isSt {
				if fa, isFa := st.Addr.(*ssa.FieldAddr); isFa {
					if fieldName(fa) == "until" && strip(st.Val) == ssa.Value(newPeriod.Params[1]) {
						ok2 = true
					}
				}
			}
		})
		r.check(ok && ok2, rule, "NewPeriod", p.pos(newPeriod.Pos()), "NewPeriod(since, until) stores both bounds in place", "NewPeriod swaps or drops a bound")
	}
}

// weekdayStep: step == K − Weekday() of the very date that is stepped from (recv); returns K.
func weekdayStep(step ssa.Value, recv ssa.Value) (int64, bool) {
	pl := polyOf(step)
	if len(pl.Terms) != 1 {
		return 0, false
	}
	same := func(a, b ssa.Value) bool {
		if a == nil || b == nil {
			return false
		}
		if sameValue(a, b) || strip(a) == strip(b) {
			return true
		}
		// two reads of one field of the (unmodified) receiver
		ba, fa := fieldLoad(a)
		bb, fb := fieldLoad(b)
		return fa != "" && fa == fb && ba != nil && bb != nil && (ba == bb || sameValue(ba, bb))
	}
	for k, c := range pl.Terms {
		if c != -1 {
			return 0, false
		}
		n, wr, _, _ := methodCall(pl.leafV[k])
		if n != "Weekday" || !same(wr, recv) {
			return 0, false
		}
	}
	return pl.C, true
}

// periodEnds: v is NewPeriod(since, until), or the period built on the spot
// (&periodData{since: …, until: …}); returns the two ends.
func periodEnds(v ssa.Value, newPeriod *ssa.Function) (since, until ssa.Value, ok bool) {
	if c, isCall := isCallTo(v, newPeriod, 0); isCall && len(c.Common().Args) == 2 {
		return c.Common().Args[0], c.Common().Args[1], true
	}
	x := strip(v)
	if mi, isMI := x.(*ssa.MakeInterface); isMI {
		x = strip(mi.X)
	}
	a, isA := x.(*ssa.Alloc)
	if !isA || typeNameOf(derefType(a.Type())) != "periodData" {
		return nil, nil, false
	}
	for _, ref := range *a.Referrers() {
		fa, isFA := ref.(*ssa.FieldAddr)
		if !isFA {
			continue
		}
		for _, r2 := range *fa.Referrers() {
			if st, isSt := r2.(*ssa.Store); isSt && st.Addr == ssa.Value(fa) {
				switch fieldName(fa) {
				case "since":
					since = st.Val
				case "until":
					until = st.Val
				}
			}
		}
	}
	return since, until, since != nil && until != nil
}
