package main

// C13 — filters and sorting.

import (
	"fmt"
	"go/token"
	"go/types"
	"reflect"
	"regexp"
	"sort"
	"strings"

	"golang.org/x/tools/go/ssa"
)

func init() {
	register(&propSpec{
		id:    "C13",
		level: "other",
		explain: "Decided on the SSA program with the flags' own kong names as oracle: (P13-translate) ApplyFilter stores into the query exactly the rows {--date/--since/--until/--tag verbatim; --after x -> since x+1 day; --before x -> until x-1 day; --period p -> p.Since()/p.Until(); --today/--yesterday/--tomorrow -> today+0/-1/+1; a shortcut period -> both bounds}, and every this-K/thisK/last-K/lastK flag, on every path where it is set, yields NewKFromDate(today)[.Previous()].Period(); " +
			"(P13-clauses) in service.Filter every skip edge is one of the five clauses in the right orientation, each clause is present, a passing record is appended exactly once and the loop has no early exit; " +
			"(P13-decoders) every kong mapper rejects the empty value, passes the value to its domain constructor, returns its error and stores the parsed value; (P13-sortcopy) Sort sorts a fresh copy by the two records' dates and flips for descending; " +
			"(P13-args-applied / P13-dead-prefilter) every command embedding FilterArgs/SortArgs applies them and continues with the returned slice only. " +
			"Not covered: the predicate semantics themselves (date comparison, tag matching), period arithmetic (C15), reduction of entries inside a record.",
		rules:   []ruleFn{ruleP13Translate, ruleP13Clauses, ruleP13Decoders, ruleP13SortCopy, ruleP13SortFlag, ruleP13EntryTypes, ruleP13Reduce, ruleP13ArgsApplied, ruleP15Steps},
		trusted: []string{"kong fills flag fields according to their `name` struct tags and calls the registered mappers"},
	})
}

// tagOfFieldAddr returns the kong name tag for a FieldAddr.
func tagOfFieldAddr(fa *ssa.FieldAddr) string {
	st := fa.X.Type().Underlying().(*types.Pointer).Elem().Underlying().(*types.Struct)
	name := reflect.StructTag(st.Tag(fa.Field)).Get("name")
	if name == "" {
		name = st.Field(fa.Field).Name()
	}
	return name
}

var shortcutRe = regexp.MustCompile(`^(this|last)-?(week|month|quarter|year)$`)

// describeArgsDate: a date-valued expression in ApplyFilter, described relative to the flags:
// "flag:<name>%+d" or "today%+d" or "period:<flag>.Since" ...
func (p *Prog) describeQueryValue(v ssa.Value, today func(ssa.Value) bool, shortcut ssa.Value) string {
	base, k := dateShift(v)
	if tag, _ := fieldTagOfLoad(base); tag != "" {
		return fmt.Sprintf("flag:%s%+d", tag, k)
	}
	if today(base) {
		return fmt.Sprintf("today%+d", k)
	}
	if n, recv, _, _ := methodCall(base); (n == "Since" || n == "Until") && k == 0 {
		if tag, _ := fieldTagOfLoad(recv); tag != "" {
			return "flag:" + tag + "." + n
		}
		if shortcut != nil && sameValue(recv, shortcut) {
			return "shortcut." + n
		}
	}
	return "?"
}

func ruleP13Translate(p *Prog, r *Report) {
	const rule = "P13-translate"
	f := p.method("klog/app/cli/util", "FilterArgs", "ApplyFilter")
	fromGoD := p.fn("klog", "NewDateFromGo")
	filter := p.fn("klog/service", "Filter")
	if !r.anchorFn(rule, f, "util.(*FilterArgs).ApplyFilter") || !r.anchorFn(rule, fromGoD, "NewDateFromGo") || !r.anchorFn(rule, filter, "service.Filter") {
		return
	}
	now := f.Params[1]
	isToday := func(v ssa.Value) bool {
		c, ok := isCallTo(v, fromGoD, 0)
		return ok && strip(c.Common().Args[0]) == ssa.Value(now)
	}
	// the query: the struct value passed to service.Filter
	fc := callsTo(f, filter)
	// the same call written on several exits (an early `return Filter(rs, qry)`): same records,
	// same query variable
	var moreCalls []ssa.CallInstruction
	if len(fc) > 1 {
		same := true
		for _, c := range fc[1:] {
			a, b := plainDeref(fc[0].Common().Args[1]), plainDeref(c.Common().Args[1])
			ua, okA := a.(*ssa.UnOp)
			ub, okB := b.(*ssa.UnOp)
			if !okA || !okB || ua.Op != token.MUL || ub.Op != token.MUL || cellOf(ua.X) == nil || cellOf(ua.X) != cellOf(ub.X) || strip(c.Common().Args[0]) != strip(fc[0].Common().Args[0]) {
				same = false
			}
		}
		if same {
			// the last one stands for all; the others are checked against the stores below
			moreCalls = fc[:len(fc)-1]
			fc = fc[len(fc)-1:]
		}
	}
	if len(fc) != 1 {
		r.undecided(rule, "filter-call", p.pos(f.Pos()), "expected exactly one call of service.Filter in ApplyFilter")
		return
	}
	var qry *ssa.Alloc
	body := f // where the query is assembled: ApplyFilter itself, or a helper it calls for it
	qv := fc[0].Common().Args[1]
	if hc, isCall := plainDeref(qv).(*ssa.Call); isCall {
		if h := rawStaticCallee(hc); h != nil && isHelper(h) && len(ht.sites[originFn(h)]) == 1 {
			if rets := plainReturnsOf(originFn(h)); len(rets) == 1 && len(rets[0].Results) == 1 {
				body = originFn(h)
				ht.ctx[body] = hc
				qv = rets[0].Results[0]
			}
		}
	}
	if u, ok := plainDeref(qv).(*ssa.UnOp); ok && u.Op == token.MUL {
		qry = cellOf(u.X)
	} else if u, ok := strip(qv).(*ssa.UnOp); ok && u.Op == token.MUL {
		qry = cellOf(u.X)
	}
	if qry == nil {
		r.undecided(rule, "query", p.instrPos(fc[0]), "the query passed to service.Filter is not a local struct variable")
		return
	}
	r.check(strip(fc[0].Common().Args[0]) == ssa.Value(f.Params[2]), rule, "filter-call:records", p.instrPos(fc[0]), "Filter receives the records given", "Filter is not applied to the records given")
	for _, ret := range returnsOf(f) {
		okRet := strip(retResult(ret, 0)) == fc[0].Value()
		for _, c := range moreCalls {
			if strip(retResult(ret, 0)) == c.Value() {
				okRet = true
			}
		}
		r.check(okRet, rule, "filter-call:returned", p.instrPos(ret), "returns Filter's result", "ApplyFilter does not return the filtered records")
	}
	// an earlier Filter call sees every assignment that is not excluded by its own condition
	for _, c := range moreCalls {
		for _, ref := range *qry.Referrers() {
			fa, ok := ref.(*ssa.FieldAddr)
			if !ok {
				continue
			}
			for _, r2 := range *fa.Referrers() {
				st, ok := r2.(*ssa.Store)
				if !ok {
					continue
				}
				before := st.Block() == c.Block() && instrIndex(st) < instrIndex(c) || st.Block() != c.Block() && reachableFrom(st.Block(), nil)[c.Block()]
				excluded := false
				for _, g1 := range guardsOf(st.Block()) {
					for _, g2 := range guardsOf(c.Block()) {
						if g1.Cond == g2.Cond && g1.Pol != g2.Pol {
							excluded = true
						}
					}
				}
				if !before && !excluded {
					r.bad(rule, "filter-call:early", p.instrPos(c), "this Filter call runs before the query assignment at %s takes effect", p.instrPos(st))
				}
			}
		}
	}
	// the shortcut period: a local closure's result tested for nil
	var shortcut ssa.Value
	var shortcutFn *ssa.Function
	eachInstr(body, func(in ssa.Instruction) {
		if c, ok := in.(*ssa.Call); ok {
			// a local closure, or the same selection as a helper function / method of the package
			if g := staticCallee(c); g != nil && (g.Parent() == body || isHelper(g)) && typeNameOf(c.Type()) == "Period" {
				shortcut, shortcutFn = c, originFn(g)
				if isHelper(g) {
					ht.ctx[originFn(g)] = c
				}
			}
		}
	})
	// collect rows: stores to fields of qry
	type row struct {
		field string
		guard string
		value string
		pos   string
	}
	var rows []row
	for _, ref := range *qry.Referrers() {
		fa, ok := ref.(*ssa.FieldAddr)
		if !ok {
			continue
		}
		for _, r2 := range *fa.Referrers() {
			st, ok := r2.(*ssa.Store)
			if !ok {
				continue
			}
			// the value may itself be chosen among several (a helper's returns, a variable
			// assigned under ifs): one row per way, under the conditions of that way.  What a
			// way excludes (the negative conditions of later overrides) is not part of its row.
			for _, vr := range valueRows(st.Val, 0, map[ssa.Value]bool{}) {
				var gs []string
				seenG := map[string]bool{}
				add := func(s string) {
					if !seenG[s] {
						seenG[s] = true
						gs = append(gs, s)
					}
				}
				all := append(append([]Guard{}, guardsOf(st.Block())...), vr.guards...)
				multi := len(vr.guards) > 0
				for _, g := range all {
					if x, isNil, ok := nilFact(g); ok {
						neg := ""
						if isNil {
							neg = "!"
						}
						if tag, _ := fieldTagOfLoad(x); tag != "" {
							add(neg + "set:" + tag)
							continue
						}
						if shortcut != nil && sameValue(x, shortcut) {
							add(neg + "shortcut")
							continue
						}
					}
					if tag, _ := fieldTagOfLoad(g.Cond); tag != "" {
						if g.Pol {
							add("set:" + tag)
						} else {
							add("!set:" + tag)
						}
						continue
					}
					if b, ok := g.Cond.(*ssa.BinOp); ok {
						if s, isS := constString(b.Y); isS && s == "" {
							if tag, _ := fieldTagOfLoad(b.X); tag != "" {
								pos := (b.Op == token.NEQ) == g.Pol
								if pos {
									add("set:" + tag)
								} else {
									add("!set:" + tag)
								}
								continue
							}
						}
					}
					add("?")
				}
				if multi {
					var pos []string
					for _, g := range gs {
						if !strings.HasPrefix(g, "!") {
							pos = append(pos, g)
						}
					}
					gs = pos
				}
				sort.Strings(gs)
				val := "?"
				switch fieldName(fa) {
				case "Tags", "EntryType":
					if tag, _ := fieldTagOfLoad(vr.val); tag != "" {
						val = "flag:" + tag + "+0"
					}
				default:
					val = p.describeQueryValue(vr.val, isToday, shortcut)
				}
				rows = append(rows, row{fieldName(fa), strings.Join(gs, ","), val, p.instrPos(st)})
			}
		}
	}
	want := map[string][]string{ // field|guard|value ; alternatives separated by "//"
		"AtDate":        {"|flag:date+0", "set:today|today+0", "set:yesterday|today-1", "set:tomorrow|today+1"},
		"AfterOrEqual":  {"|flag:since+0", "set:period|flag:period.Since", "set:after|flag:after+1", "shortcut|shortcut.Since"},
		"BeforeOrEqual": {"|flag:until+0", "set:period|flag:period.Until", "set:before|flag:before-1", "shortcut|shortcut.Until"},
		"Tags":          {"|flag:tag+0"},
		"EntryType":     {"set:entry-type|flag:entry-type+0//|flag:entry-type+0"},
	}
	matched := map[string]bool{}
	for _, rw := range rows {
		got := rw.guard + "|" + rw.value
		ok := false
		for _, w := range want[rw.field] {
			for _, alt := range strings.Split(w, "//") {
				if alt == got {
					ok = true
					matched[rw.field+"|"+w] = true
				}
			}
		}
		r.check(ok, rule, "row:"+rw.field+"["+rw.guard+"]", rw.pos, fmt.Sprintf("query.%s := %s when {%s}", rw.field, rw.value, rw.guard), fmt.Sprintf("unexpected translation: query.%s := %s when {%s}", rw.field, rw.value, rw.guard))
	}
	for _, fld := range sortedKeys(want) {
		for _, w := range want[fld] {
			if !matched[fld+"|"+w] {
				r.bad(rule, "missing:"+fld+"["+w+"]", p.pos(f.Pos()), "the translation %s <- %s is missing", fld, w)
			}
		}
	}
	// shortcut flags: completeness
	if shortcutFn == nil {
		r.bad(rule, "shortcut", p.pos(f.Pos()), "no shortcut-period selection found in ApplyFilter")
		return
	}
	describeShortcut := func(v ssa.Value) string {
		n, recv, _, _ := methodCall(v)
		if n != "Period" {
			return "?"
		}
		which := "this"
		if n2, recv2, _, _ := methodCall(recv); n2 == "Previous" {
			which = "last"
			recv = recv2
		}
		c, idx := callOf(recv)
		if c == nil || idx != 0 {
			return "?"
		}
		g := staticCallee(c)
		if g == nil || len(c.Common().Args) != 1 || !isToday(c.Common().Args[0]) {
			return "?"
		}
		m := regexp.MustCompile(`^New(Week|Month|Quarter|Year)FromDate$`).FindStringSubmatch(fnBase(g))
		if m == nil {
			return "?"
		}
		return which + "-" + strings.ToLower(m[1])
	}
	seenFlag := map[string]bool{}
	for _, b := range shortcutFn.Blocks {
		if len(b.Instrs) == 0 {
			continue
		}
		iff, ok := b.Instrs[len(b.Instrs)-1].(*ssa.If)
		if !ok {
			continue
		}
		gs := flattenCond(iff.Cond, true, iff)
		tag, _ := fieldTagOfLoad(gs[0].Cond)
		m := shortcutRe.FindStringSubmatch(tag)
		if m == nil {
			r.undecided(rule, "shortcut:cond", p.instrPos(iff), "condition in the shortcut selection that is not a this-/last- flag")
			continue
		}
		seenFlag[tag] = true
		want := m[1] + "-" + m[2]
		succ := b.Succs[0]
		if !gs[0].Pol {
			succ = b.Succs[1]
		}
		// every path from the flag-is-set edge returns the expected period without further tests
		region := reachableFrom(succ, nil)
		okAll, nRet := true, 0
		detail := ""
		for rb := range region {
			switch t := rb.Instrs[len(rb.Instrs)-1].(type) {
			case *ssa.Return:
				nRet++
				if d := describeShortcut(retResult(t, 0)); d != want {
					okAll = false
					detail = "returns " + d + " at " + p.instrPos(t)
				}
			case *ssa.If:
				okAll = false
				detail = "a further condition is tested at " + p.instrPos(t)
			}
		}
		r.check(okAll && nRet > 0, rule, "shortcut:--"+tag, p.instrPos(iff), "--"+tag+" set -> "+want+" period of today, on every path", "--"+tag+" does not always select the "+want+" period: "+detail)
	}
	for _, wk := range []string{"this", "last"} {
		for _, k := range []string{"week", "month", "quarter", "year"} {
			for _, sep := range []string{"-", ""} {
				tag := wk + sep + k
				if !seenFlag[tag] {
					r.bad(rule, "shortcut:--"+tag, p.pos(shortcutFn.Pos()), "flag --%s is never consulted", tag)
				}
			}
		}
	}
	sawNil := false
	for _, ret := range returnsOf(shortcutFn) {
		if isNilConst(retResult(ret, 0)) {
			sawNil = true
		} else if describeShortcut(retResult(ret, 0)) == "?" {
			r.bad(rule, "shortcut:value", p.instrPos(ret), "the shortcut selection returns a period that is not New<K>FromDate(today)[.Previous()].Period()")
		}
	}
	r.check(sawNil, rule, "shortcut:none", p.pos(shortcutFn.Pos()), "no shortcut flag -> no shortcut period", "the shortcut selection never returns nil")
}

func ruleP13Clauses(p *Prog, r *Report) {
	const rule = "P13-clauses"
	f := p.fn("klog/service", "Filter")
	if !r.anchorFn(rule, f, "service.Filter") {
		return
	}
	rs := f.Params[0]
	// the loop header: block whose phi is a range index over rs
	var header *ssa.BasicBlock
	var elem ssa.Value
	eachInstr(f, func(in ssa.Instruction) {
		if ia, ok := in.(*ssa.IndexAddr); ok && strip(ia.X) == ssa.Value(rs) && isRangeIndex(ia.Index) {
			header = ia.Index.(*ssa.BinOp).Block()
			for _, ref := range *ia.Referrers() {
				if u, ok := ref.(*ssa.UnOp); ok && u.Op == token.MUL {
					elem = u
				}
			}
		}
	})
	if header == nil || elem == nil {
		r.undecided(rule, "loop", p.pos(f.Pos()), "no range loop over the records parameter found")
		return
	}
	qField := func(v ssa.Value) string {
		_, fld := fieldLoad(v)
		return fld
	}
	isRecDate := func(v ssa.Value) bool {
		n, recv, _, _ := methodCall(v)
		return n == "Date" && recElem(recv, elem)
	}
	clause := func(b *ssa.BasicBlock, iff *ssa.If, contSucc int) string {
		// condition that holds when the edge to the header is taken
		gs := flattenCond(iff.Cond, contSucc == 0, iff)
		g := gs[0]
		var pre []string
		for _, gd := range guardsOf(b) {
			if isLoopGuard(gd) {
				continue
			}
			if x, isNil, ok := nilFact(gd); ok && !isNil {
				pre = append(pre, "has:"+qField(x))
				continue
			}
			if bo, ok := gd.Cond.(*ssa.BinOp); ok {
				if s, isS := constString(bo.Y); isS && s == "" && (bo.Op == token.NEQ) == gd.Pol {
					pre = append(pre, "has:"+qField(bo.X))
					continue
				}
			}
			// guards from earlier clauses that passed are irrelevant (they dominate via done-blocks)
		}
		sort.Strings(pre)
		n, recv, args, _ := methodCall(g.Cond)
		desc := "?"
		switch {
		case n == "IsEqualTo" && len(args) == 1 && !g.Pol:
			if (qField(recv) == "AtDate" && isRecDate(args[0])) || (qField(args[0]) == "AtDate" && isRecDate(recv)) {
				desc = "date!=AtDate"
			}
		case n == "IsAfterOrEqual" && len(args) == 1 && !g.Pol:
			if qField(recv) == "BeforeOrEqual" && isRecDate(args[0]) {
				desc = "date>BeforeOrEqual"
			} else if isRecDate(recv) && qField(args[0]) == "AfterOrEqual" {
				desc = "date<AfterOrEqual"
			}
		default:
			// !hasMatched of a reduce call
			if ex, ok := g.Cond.(*ssa.Extract); ok && !g.Pol && ex.Index == 1 {
				if c, ok := ex.Tuple.(*ssa.Call); ok {
					if callee := staticCallee(c); callee != nil {
						a := c.Common().Args
						switch fnBase(callee) {
						case "reduceRecordToMatchingTags":
							if qField(a[0]) == "Tags" && recElem(a[1], elem) {
								desc = "tags-unmatched"
							}
						case "reduceRecordToMatchingEntryTypes":
							if qField(a[0]) == "EntryType" && recElem(a[1], elem) {
								desc = "type-unmatched"
							}
						}
					}
				}
			}
		}
		return strings.Join(pre, ",") + "=>" + desc
	}
	want := map[string]string{
		"has:AtDate=>date!=AtDate":              "--date clause",
		"has:BeforeOrEqual=>date>BeforeOrEqual": "until clause",
		"has:AfterOrEqual=>date<AfterOrEqual":   "since clause",
		"has:Tags=>tags-unmatched":              "tag clause",
		"=>tags-unmatched":                      "tag clause",
		"has:EntryType=>type-unmatched":         "entry-type clause",
	}
	seen := map[string]bool{}
	nAppend := 0
	for _, pb := range header.Preds {
		if !header.Dominates(pb) {
			continue // loop entry
		}
		last := pb.Instrs[len(pb.Instrs)-1]
		switch t := last.(type) {
		case *ssa.If:
			cs := 0
			if pb.Succs[1] == header {
				cs = 1
			}
			// a boolean helper that bundles several clauses: `if !matches(o, r) { continue }` —
			// every `return false` of the helper is a skip edge of its own
			if g0 := flattenCond(t.Cond, cs == 0, t)[0]; !g0.Pol {
				hc, _ := g0.Cond.(*ssa.Call)
				// … or a helper that hands back (the record as it passes, whether it passes)
				if ex, isEx := g0.Cond.(*ssa.Extract); isEx && hc == nil {
					if c, isC := ex.Tuple.(*ssa.Call); isC && ex.Index == c.Call.Signature().Results().Len()-1 {
						hc = c
					}
				}
				if hc != nil && isHelper(rawStaticCallee(hc)) {
					h := originFn(rawStaticCallee(hc))
					expanded := 0
					last := h.Signature.Results().Len() - 1
					vcall{call: hc, chain: []ssa.CallInstruction{hc}}.run(func() {
						for _, ret := range returnsOf(h) {
							if b, isB := constBool(retResult(ret, last)); !isB || b {
								if last > 0 && !(isB && b) {
									expanded = -1000 // an answer that is not a constant: not understood
								}
								if last > 0 && isB && b && !recElem(retResult(ret, 0), elem) {
									r.bad(rule, "pass:helper-record", p.instrPos(ret), "the record handed back by %s for a passing record is not the record (or its reduced form)", h.Name())
								}
								continue
							}
							for _, rp := range ret.Block().Preds {
								iff2, isIf := rp.Instrs[len(rp.Instrs)-1].(*ssa.If)
								if !isIf {
									continue
								}
								cs2 := 0
								if rp.Succs[1] == ret.Block() {
									cs2 = 1
								}
								d2 := clause(rp, iff2, cs2)
								expanded++
								if _, ok := want[d2]; ok {
									seen[d2] = true
									r.ok(rule, "skip:"+d2, p.instrPos(iff2), "skip edge (inside %s) is the %s", h.Name(), want[d2])
								} else {
									r.bad(rule, "skip:"+d2, p.instrPos(iff2), "a record is skipped (inside %s) under a condition that is none of the five clauses: %s", h.Name(), d2)
								}
							}
						}
					})
					if expanded > 0 {
						continue
					}
				}
			}
			// several clauses merged into one boolean (`ok := (a == nil || …) && (…)`; `if !ok
			// { continue }`): every way the skip condition comes true is a skip edge of its own
			if hasPhi(t.Cond) {
				var alts [][]Guard
				var okA bool
				if cs == 0 {
					alts, okA = truthAlts(t.Cond, 0)
				} else {
					alts, okA = falseAlts(t.Cond, 0)
				}
				if okA && len(alts) > 1 {
					for _, alt := range alts {
						d := "=>?"
						var pre []string
						nDesc := 0
						for _, gd := range alt {
							if isLoopGuard(gd) {
								continue
							}
							if x, isNil, ok := nilFact(gd); ok {
								if !isNil {
									pre = append(pre, "has:"+qField(x))
								}
								continue // an absent clause that let the record pass
							}
							n, recv, args, _ := methodCall(gd.Cond)
							if (n == "IsEqualTo" || n == "IsAfterOrEqual") && len(args) == 1 {
								if gd.Pol {
									continue // an earlier clause that passed
								}
								nDesc++
								switch {
								case n == "IsEqualTo" && ((qField(recv) == "AtDate" && isRecDate(args[0])) || (qField(args[0]) == "AtDate" && isRecDate(recv))):
									d = "has:AtDate=>date!=AtDate"
								case n == "IsAfterOrEqual" && qField(recv) == "BeforeOrEqual" && isRecDate(args[0]):
									d = "has:BeforeOrEqual=>date>BeforeOrEqual"
								case n == "IsAfterOrEqual" && isRecDate(recv) && qField(args[0]) == "AfterOrEqual":
									d = "has:AfterOrEqual=>date<AfterOrEqual"
								}
								continue
							}
							nDesc += 2 // something else decides as well
						}
						hasOwn := false
						for _, h := range pre {
							if strings.HasPrefix(d, h+"=>") {
								hasOwn = true
							}
						}
						if nDesc != 1 || !hasOwn {
							d = strings.Join(pre, ",") + "=>?"
						}
						if _, ok := want[d]; ok {
							seen[d] = true
							r.ok(rule, "skip:"+d, p.instrPos(t), "one way into the merged skip edge is the %s", want[d])
						} else {
							r.bad(rule, "skip:"+d, p.instrPos(t), "a record is skipped under a condition that is none of the five clauses: %s", d)
						}
					}
					continue
				}
			}
			d := clause(pb, t, cs)
			if _, ok := want[d]; ok {
				seen[d] = true
				r.ok(rule, "skip:"+d, p.instrPos(t), "skip edge is the %s", want[d])
			} else {
				r.bad(rule, "skip:"+d, p.instrPos(t), "a record is skipped under a condition that is none of the five clauses: %s", d)
			}
		case *ssa.Jump:
			// must be the append block
			okApp := false
			for _, in := range pb.Instrs {
				if c, ok := in.(*ssa.Call); ok {
					if bi, ok := c.Call.Value.(*ssa.Builtin); ok && bi.Name() == "append" {
						els, ok2 := sliceLitElems(c.Call.Args[1])
						okRec := ok2 && len(els) == 1 && recElem(els[0], elem)
						if ok2 && len(els) == 1 && !okRec {
							// the record as a clause helper handed it back (checked at the helper's returns)
							if ex, isEx := strip(els[0]).(*ssa.Extract); isEx && ex.Index == 0 {
								if c, isC := ex.Tuple.(*ssa.Call); isC && isHelper(rawStaticCallee(c)) && c.Call.Signature().Results().Len() == 2 {
									for _, a := range c.Call.Args {
										if recElem(a, elem) {
											okRec = true
										}
									}
								}
							}
						}
						if okRec {
							if ph, isPhi := strip(c.Call.Args[0]).(*ssa.Phi); isPhi && ph.Block() == header {
								okApp = true
								nAppend++
							}
						}
					}
				}
			}
			r.check(okApp, rule, "pass:append", p.instrPos(last), "a passing record is appended once to the result", "an unconditional loop edge that does not append the record to the result")
		}
	}
	if seen["=>tags-unmatched"] {
		seen["has:Tags=>tags-unmatched"] = true // reducing by an empty tag list passes every record
	} else {
		seen["=>tags-unmatched"] = true
	}
	for d, name := range want {
		if !seen[d] {
			r.bad(rule, "missing:"+d, p.pos(f.Pos()), "the %s is not enforced (no skip edge %s)", name, d)
		}
	}
	r.check(nAppend == 1, rule, "pass:once", p.pos(f.Pos()), "exactly one append site", fmt.Sprintf("%d append sites", nAppend))
	// no early exit: every return is dominated only via the header's exit edge and returns the accumulator
	for _, ret := range returnsOf(f) {
		okExit := len(ret.Block().Preds) == 1 && ret.Block().Preds[0] == header
		ph, isPhi := strip(retResult(ret, 0)).(*ssa.Phi)
		r.check(okExit && isPhi && ph.Block() == header, rule, "no-early-exit", p.instrPos(ret), "the loop is left only after the last record; the accumulated slice is returned", "the loop can be left early (break/return) or does not return the accumulated records")
	}
	// blocks inside the loop may not jump out other than via header
	for _, b := range f.Blocks {
		if header.Dominates(b) && b != header {
			for _, s := range b.Succs {
				if !header.Dominates(s) {
					r.bad(rule, "no-early-exit:break", p.instrPos(b.Instrs[len(b.Instrs)-1]), "an edge leaves the loop from inside its body")
				}
			}
		}
	}
	// reduce functions keep entries in order: append-only filter over r.Entries()
	for _, name := range []string{"reduceRecordToMatchingTags", "reduceRecordToMatchingEntryTypes"} {
		g := p.fn("klog/service", name)
		if !r.anchorFn(rule, g, name) {
			continue
		}
		okOrder := false
		var setEntries ssa.CallInstruction
		var setCtx vinstr
		for _, vi := range virtualInstrs(g) {
			if c, ok := vi.in.(ssa.CallInstruction); ok {
				if n, _, _, _ := methodCallOf(c); n == "SetEntries" {
					setEntries, setCtx = c, vi
				}
			}
		}
		if setEntries != nil {
			setCtx.run(func() {
				_, _, args, _ := methodCallOf(setEntries)
				phis, inputs := phiCycle(args[0])
				nApp := 0
				okOrder = len(phis) > 0
				for _, in := range inputs {
					if isNilConst(in) {
						continue
					}
					c, ok := in.(*ssa.Call)
					if !ok {
						okOrder = false
						continue
					}
					bi, ok := c.Call.Value.(*ssa.Builtin)
					if !ok || bi.Name() != "append" {
						okOrder = false
						continue
					}
					nApp++
					els, ok2 := sliceLitElems(c.Call.Args[1])
					if !ok2 || len(els) != 1 {
						okOrder = false
						continue
					}
					coll := rangeElemOf(els[0])
					if coll == nil {
						okOrder = false
						continue
					}
					if n, _, _, _ := methodCall(coll); n != "Entries" {
						okOrder = false
					}
				}
				okOrder = okOrder && nApp == 1
			})
		}
		r.check(okOrder, rule, name+":order", p.pos(g.Pos()), "matching entries are collected in their original order (append-only over r.Entries())", name+" does not collect the matching entries by appending the loop element in order")
	}
}

// recElem: v is the loop's record element or a phi/reduction derived from it (reduced record).
func recElem(v ssa.Value, elem ssa.Value) bool {
	v = strip(v)
	if v == elem {
		return true
	}
	if ph, ok := v.(*ssa.Phi); ok {
		_, ins := phiCycle(ph)
		for _, in := range ins {
			if in == elem {
				continue
			}
			// reduced record: extract #0 of a reduce call on the element
			if ex, ok := in.(*ssa.Extract); ok && ex.Index == 0 {
				if c, ok := ex.Tuple.(*ssa.Call); ok && len(c.Call.Args) == 2 && recElem(c.Call.Args[1], elem) {
					continue
				}
			}
			return false
		}
		return true
	}
	return false
}

func ruleP13Decoders(p *Prog, r *Report) {
	const rule = "P13-decoders"
	type dec struct{ fn, pkg, ctor string }
	table := []dec{
		{"dateDecoder", "klog", "NewDateFromString"},
		{"timeDecoder", "klog", "NewTimeFromString"},
		{"shouldTotalDecoder", "klog", "NewDurationFromString"},
		{"periodDecoder", "klog/service/period", "NewPeriodFromPatternString"},
		{"roundingDecoder", "klog/service", "NewRoundingFromString"},
		{"tagDecoder", "klog", "NewTagFromString"},
		{"recordSummaryDecoder", "klog", "NewRecordSummary"},
		{"entrySummaryDecoder", "klog", "NewEntrySummary"},
		{"entryTypeDecoder", "", ""},
	}
	for _, d := range table {
		outer := p.fn("klog/app/main", d.fn)
		if !r.anchorFn(rule, outer, "main."+d.fn) {
			continue
		}
		if len(outer.AnonFuncs) != 1 {
			r.undecided(rule, d.fn, p.pos(outer.Pos()), "%s does not return a single mapper literal", d.fn)
			continue
		}
		m := outer.AnonFuncs[0]
		// the raw value: the local string whose address goes to PopValueInto
		var val *ssa.Alloc
		var pop ssa.CallInstruction
		eachInstr(m, func(in ssa.Instruction) {
			if c, ok := in.(ssa.CallInstruction); ok {
				if g := staticCallee(c); g != nil && fnBase(g) == "PopValueInto" {
					pop = c
					for _, a := range c.Common().Args {
						if mi, ok := a.(*ssa.MakeInterface); ok {
							if al, ok := mi.X.(*ssa.Alloc); ok {
								val = al
							}
						}
					}
				}
			}
		})
		if val == nil {
			r.undecided(rule, d.fn+":value", p.pos(m.Pos()), "raw flag value (PopValueInto target) not found")
			continue
		}
		// PopValueInto error returned
		if e := resultOf(pop, 0); e != nil {
			msg, _ := p.checkForwarding(m, e, lastResultIdx)
			r.check(msg == "", rule, d.fn+":scan-error", p.instrPos(pop), "scanner error is returned", "the scanner's error is not returned: "+msg)
		}
		isVal := func(v ssa.Value) bool {
			u, ok := strip(v).(*ssa.UnOp)
			return ok && u.Op == token.MUL && cellOf(u.X) == val
		}
		// empty value rejected
		okEmpty := false
		for _, b := range m.Blocks {
			iff, ok := b.Instrs[len(b.Instrs)-1].(*ssa.If)
			if !ok {
				continue
			}
			bo, ok := iff.Cond.(*ssa.BinOp)
			if !ok || !isVal(bo.X) {
				continue
			}
			if s, isS := constString(bo.Y); !isS || s != "" {
				continue
			}
			var emptySucc *ssa.BasicBlock
			switch bo.Op {
			case token.EQL:
				emptySucc = b.Succs[0]
			case token.NEQ:
				emptySucc = b.Succs[1]
			default:
				continue
			}
			{
				msg := rejectComplete(emptySucc, func(ret *ssa.Return) string {
					if p.nilnessAt(ret.Block(), retResult(ret, 0), 0) != nnNonNil {
						return "returns nil for the empty value"
					}
					return ""
				})
				okEmpty = msg == ""
			}
		}
		r.check(okEmpty, rule, d.fn+":empty", p.pos(m.Pos()), "the empty value is rejected", d.fn+" does not reject exactly the empty value")
		// target.Set(reflect.ValueOf(x))
		var set ssa.CallInstruction
		eachInstr(m, func(in ssa.Instruction) {
			if c, ok := in.(ssa.CallInstruction); ok {
				if g := staticCallee(c); g != nil && fnBase(g) == "Set" && strings.Contains(g.String(), "reflect.Value") {
					set = c
				}
			}
		})
		if set == nil {
			r.bad(rule, d.fn+":store", p.pos(m.Pos()), "%s never stores a value into the flag", d.fn)
			continue
		}
		var stored ssa.Value
		if vc, idx := callOf(set.Common().Args[1]); vc != nil && idx == 0 {
			if g := staticCallee(vc); g != nil && fnBase(g) == "ValueOf" {
				stored = vc.Common().Args[0]
			}
		}
		if d.ctor == "" {
			// entry type: stored value is checked against the table of valid types
			okT := stored != nil
			if okT {
				// Set must be guarded by a successful lookup (ok == true)
				okT = false
				for _, g := range guardsOf(set.Block()) {
					if ex, isEx := g.Cond.(*ssa.Extract); isEx && g.Pol {
						if lk, isLk := ex.Tuple.(*ssa.Lookup); isLk && sameValue(lk.Index, stored) {
							okT = true
						}
					}
					if lk, isLk := g.Cond.(*ssa.Lookup); isLk && g.Pol && sameValue(lk.Index, stored) {
						okT = true
					}
				}
			}
			r.check(okT, rule, d.fn+":store", p.instrPos(set), "the entry type is stored only when it is in the table of valid types", "the entry type stored is not validated against the table of types")
			continue
		}
		ctor := p.fn(d.pkg, d.ctor)
		if !r.anchorFn(rule, ctor, d.ctor) {
			continue
		}
		cs := callsTo(m, ctor)
		if len(cs) != 1 {
			r.bad(rule, d.fn+":ctor", p.pos(m.Pos()), "%s does not call %s exactly once", d.fn, d.ctor)
			continue
		}
		c := cs[0]
		// argument derives from the raw value
		r.check(derivesFromCell(c.Common().Args[0], val, 0), rule, d.fn+":ctor-arg", p.instrPos(c), d.ctor+" parses the flag's value", d.ctor+" is not applied to the flag's value")
		// … as typed: values are compared with the file's text as written there (tag values,
		// summaries) and notations are case-sensitive (8:00am, Q1, W05)
		if how := caseMappingIn(c.Common().Args[0], 0); how != "" {
			r.bad(rule, d.fn+":ctor-arg:case", p.instrPos(c), "%s changes the letter case of the flag's value (%s) before %s parses it: the query no longer means the text the user typed (a tag value `ABC` would select `abc`)", d.fn, how, d.ctor)
		}
		e := resultOf(c, 1)
		if e == nil {
			r.bad(rule, d.fn+":ctor-err", p.instrPos(c), "the error of %s is discarded", d.ctor)
			continue
		}
		msg, how := p.checkForwarding(m, e, lastResultIdx)
		r.check(msg == "" && knownNil(set.Block(), e), rule, d.fn+":ctor-err", p.instrPos(c), "invalid value -> error, value stored only on the nil-error edge ("+how+")", "an invalid value is not rejected before storing: "+msg)
		// stored value derives from ctor result 0
		okStored := stored != nil && (sameValue(stored, resultOf(c, 0)) || derivesFromValue(stored, resultOf(c, 0), 0))
		r.check(okStored, rule, d.fn+":store", p.instrPos(set), "the parsed value is what is stored into the flag", "the value stored into the flag is not the one "+d.ctor+" returned")
		// success return after Set
		for _, ret := range returnsOf(m) {
			if set.Block().Dominates(ret.Block()) {
				r.check(isNilConst(retResult(ret, 0)), rule, d.fn+":success", p.instrPos(ret), "nil after storing", "returns an error although the value was stored")
			}
		}
	}
	r.floor(rule, 30)
}

// derivesFromCell: v is computed from (a load of) the cell through string functions/slicing.
func derivesFromCell(v ssa.Value, cell *ssa.Alloc, depth int) bool {
	if depth > 8 {
		return false
	}
	v = strip(v)
	switch x := v.(type) {
	case *ssa.UnOp:
		if x.Op == token.MUL {
			return cellOf(x.X) == cell
		}
	case *ssa.Call:
		for _, a := range x.Call.Args {
			if derivesFromCell(a, cell, depth+1) {
				return true
			}
		}
	case *ssa.Slice:
		return derivesFromCell(x.X, cell, depth+1)
	case *ssa.Phi:
		for _, e := range x.Edges {
			if !derivesFromCell(e, cell, depth+1) {
				return false
			}
		}
		return true
	}
	return false
}

// derivesFromValue: v is computed from src through calls taking it (or accessors of it) as operand.
func derivesFromValue(v, src ssa.Value, depth int) bool {
	if depth > 6 || src == nil {
		return false
	}
	v = strip(v)
	if v == strip(src) {
		return true
	}
	if c, ok := v.(*ssa.Call); ok {
		if c.Call.IsInvoke() && derivesFromValue(c.Call.Value, src, depth+1) {
			return true
		}
		for _, a := range c.Call.Args {
			if derivesFromValue(a, src, depth+1) {
				return true
			}
		}
	}
	return false
}

func ruleP13SortCopy(p *Prog, r *Report) {
	const rule = "P13-sortcopy"
	f := p.fn("klog/service", "Sort")
	if !r.anchorFn(rule, f, "service.Sort") {
		return
	}
	rs, asc := f.Params[0], f.Params[1]
	// result: append(nil, rs...)
	var sorted ssa.Value
	okCopy := false
	for _, ret := range returnsOf(f) {
		sorted = deref(retResult(ret, 0))
		if c, ok := sorted.(*ssa.Call); ok {
			if bi, ok := c.Call.Value.(*ssa.Builtin); ok && bi.Name() == "append" {
				okCopy = isNilConst(c.Call.Args[0]) && strip(c.Call.Args[1]) == ssa.Value(rs)
			}
		}
	}
	r.check(okCopy, rule, "fresh-copy", p.pos(f.Pos()), "Sort returns a fresh copy of its input (append(nil, rs...))", "Sort does not return a fresh copy of the records")
	// the input is used for nothing else
	okInput := true
	for _, ref := range *rs.Referrers() {
		if c, ok := ref.(*ssa.Call); ok {
			if bi, ok := c.Call.Value.(*ssa.Builtin); ok && (bi.Name() == "append" || bi.Name() == "len") {
				continue
			}
		}
		okInput = false
	}
	r.check(okInput, rule, "input-untouched", p.pos(f.Pos()), "the input slice is only read by the copy", "the input slice is used by something other than the copy (it may be reordered in place)")
	// sort call on the copy with a comparator literal
	var less *ssa.Function
	var site sortSite
	for _, s := range p.sortSitesIn(f) {
		if sameValue(s.coll, sorted) {
			less, site = s.less, s
		}
	}
	if less == nil {
		r.bad(rule, "sorted", p.pos(f.Pos()), "the copy is not sorted with sort.Slice and a comparator literal")
		return
	}
	// comparator: x = sorted[j].Date().IsAfterOrEqual(sorted[i].Date()); asc -> x ; desc -> !x
	pi, pj := site.i, site.j
	isAsc := func(v ssa.Value) bool { return deref(site.outer(deref(v))) == ssa.Value(asc) }
	elemIdx := func(v ssa.Value) ssa.Value {
		n, recv, _, _ := methodCall(v)
		if n != "Date" {
			return nil
		}
		u, ok := strip(recv).(*ssa.UnOp)
		if !ok || u.Op != token.MUL {
			return nil
		}
		ia, ok := u.X.(*ssa.IndexAddr)
		if !ok {
			return nil
		}
		return strip(ia.Index)
	}
	describe := func(v ssa.Value) string {
		neg := false
		v = strip(v)
		if u, ok := v.(*ssa.UnOp); ok && u.Op == token.NOT {
			neg = true
			v = u.X
		}
		n, recv, args, _ := methodCall(v)
		if n != "IsAfterOrEqual" || len(args) != 1 {
			return "?"
		}
		a, b := elemIdx(recv), elemIdx(args[0])
		d := "?"
		switch {
		case a == ssa.Value(pj) && b == ssa.Value(pi):
			d = "j>=i"
		case a == ssa.Value(pi) && b == ssa.Value(pj):
			d = "i>=j"
		}
		if neg {
			return "!" + d
		}
		return d
	}
	seen := map[string]string{}
	for _, ret := range returnsOf(less) {
		mode := "asc"
		for _, g := range guardsOf(ret.Block()) {
			if isAsc(g.Cond) {
				if g.Pol {
					mode = "asc"
				} else {
					mode = "desc"
				}
			}
			if u, ok := g.Cond.(*ssa.UnOp); ok && u.Op == token.NOT && isAsc(u.X) {
				if g.Pol {
					mode = "desc"
				}
			}
		}
		// `return isAscending == startWithOldest`: both modes in one expression
		if bo, ok := strip(retResult(ret, 0)).(*ssa.BinOp); ok && (bo.Op == token.EQL || bo.Op == token.NEQ) {
			other := ssa.Value(nil)
			if isAsc(bo.X) {
				other = bo.Y
			} else if isAsc(bo.Y) {
				other = bo.X
			}
			if other != nil {
				d := describe(other)
				nd := "!" + d
				if strings.HasPrefix(d, "!") {
					nd = d[1:]
				}
				if bo.Op == token.EQL {
					seen["asc"], seen["desc"] = d, nd
				} else {
					seen["asc"], seen["desc"] = nd, d
				}
				continue
			}
		}
		seen[mode] = describe(retResult(ret, 0))
	}
	// ascending: less(i,j) true when date[j] >= date[i] (or its strict form !(i>=j)); descending: the negation
	okAsc := seen["asc"] == "j>=i" || seen["asc"] == "!i>=j"
	okDesc := seen["desc"] == "!j>=i" || seen["desc"] == "i>=j"
	r.check(okAsc, rule, "comparator:asc", p.pos(less.Pos()), "ascending: element i sorts first when date[j] >= date[i]", "ascending comparator is "+seen["asc"])
	r.check(okDesc, rule, "comparator:desc", p.pos(less.Pos()), "descending: the flipped comparison", "descending comparator is "+seen["desc"])
}

// usedAfter: is value a used by an instruction that can execute after call c?
func usedAfter(a ssa.Value, c ssa.Instruction) (bool, ssa.Instruction) {
	refs := a.Referrers()
	if refs == nil {
		return false, nil
	}
	after := reachableFrom(c.Block(), nil)
	for _, ref := range *refs {
		if ref == c {
			continue
		}
		if ref.Block() == c.Block() {
			// later in the same block?
			ic, ir := -1, -1
			for i, in := range c.Block().Instrs {
				if in == c {
					ic = i
				}
				if in == ref {
					ir = i
				}
			}
			if ir > ic {
				return true, ref
			}
			// earlier in the block but the block is in a loop
			for _, s := range c.Block().Succs {
				if reachableFrom(s, nil)[c.Block()] {
					return true, ref
				}
			}
			continue
		}
		if after[ref.Block()] {
			return true, ref
		}
	}
	return false, nil
}

// embedsArgs: command structs (cli package) with an embedded util.<argsType> field.
func (p *Prog) commandsEmbedding(argsType string) []string {
	var out []string
	pk := p.pkg("klog/app/cli")
	if pk == nil {
		return nil
	}
	for name := range p.commandRuns() {
		obj := pk.Types.Scope().Lookup(name)
		st, ok := obj.Type().Underlying().(*types.Struct)
		if !ok {
			continue
		}
		for i := 0; i < st.NumFields(); i++ {
			fl := st.Field(i)
			if fl.Embedded() && typeNameOf(fl.Type()) == argsType {
				out = append(out, name)
			}
		}
	}
	sort.Strings(out)
	return out
}

// argsApplied checks that each command embedding util.<argsType> calls its <method> on the
// embedded field; returns the calls per command.
func (p *Prog) argsApplied(r *Report, rule, argsType, method string) map[string][]ssa.CallInstruction {
	out := map[string][]ssa.CallInstruction{}
	m := p.method("klog/app/cli/util", argsType, method)
	if !r.anchorFn(rule, m, argsType+"."+method) {
		return out
	}
	runs := p.commandRuns()
	for _, name := range p.commandsEmbedding(argsType) {
		run := runs[name]
		var calls []ssa.CallInstruction
		// the Run method, its closures, and package-local helpers it calls (two levels)
		fns := map[*ssa.Function]bool{}
		var add func(f *ssa.Function, depth int)
		add = func(f *ssa.Function, depth int) {
			for _, g := range withAnons(f) {
				if fns[g] {
					continue
				}
				fns[g] = true
				if depth >= 2 {
					continue
				}
				eachInstr(g, func(in ssa.Instruction) {
					if c, ok := in.(ssa.CallInstruction); ok {
						if h := staticCallee(c); h != nil && h.Parent() == nil && pkgPathOfFn(h) == modPath+"/klog/app/cli" && len(h.Blocks) > 0 {
							add(h, depth+1)
						}
					}
				})
			}
		}
		add(run, 0)
		var ordered []*ssa.Function
		for g := range fns {
			ordered = append(ordered, g)
		}
		sort.Slice(ordered, func(i, j int) bool { return ordered[i].String() < ordered[j].String() })
		for _, f := range ordered {
			for _, c := range callsTo(f, m) {
				// receiver is the embedded field of the command itself
				if fa, ok := strip(c.Common().Args[0]).(*ssa.FieldAddr); ok && typeNameOf(fa.X.Type()) == name {
					calls = append(calls, c)
				}
			}
		}
		out[name] = calls
		if len(calls) == 0 {
			r.bad(rule, name+":"+argsType+"."+method, p.pos(run.Pos()), "command %s accepts the %s flags but never applies them (%s is not called)", strings.ToLower(name), argsType, method)
		}
	}
	return out
}

func ruleP13ArgsApplied(p *Prog, r *Report) {
	const rule = "P13-args-applied"
	for _, spec := range [][2]string{{"FilterArgs", "ApplyFilter"}, {"SortArgs", "ApplySort"}} {
		for name, calls := range p.argsApplied(r, rule, spec[0], spec[1]) {
			for i, c := range calls {
				key := fmt.Sprintf("%s:%s#%d", name, spec[1], i)
				res := c.Value()
				used := res != nil && len(*res.Referrers()) > 0
				r.check(used, rule, key+":result-used", p.instrPos(c), "the command continues with the returned slice", "the result of "+spec[1]+" is discarded")
				// dead-prefilter: the argument slice is not used afterwards
				arg := c.Common().Args[len(c.Common().Args)-1]
				if ua, at := usedAfter(arg, c); ua {
					r.bad("P13-dead-prefilter", key, p.instrPos(at), "the unfiltered/unsorted slice is still used after %s", spec[1])
				} else {
					r.ok("P13-dead-prefilter", key, p.instrPos(c), "the slice passed to %s is dead afterwards", spec[1])
				}
			}
		}
	}
	r.floor(rule, 7)
}

// caseMappingIn: the value is computed through a function that changes letter case.
func caseMappingIn(v ssa.Value, depth int) string {
	if depth > 8 {
		return ""
	}
	v = strip(v)
	switch x := v.(type) {
	case *ssa.Call:
		if g := staticCallee(x); g != nil {
			switch g.String() {
			case "strings.ToLower", "strings.ToUpper", "strings.ToTitle", "strings.Title", "strings.Map", "strings.ToLowerSpecial", "strings.ToUpperSpecial", "bytes.ToLower", "bytes.ToUpper":
				return g.String()
			}
		}
		for _, a := range x.Call.Args {
			if h := caseMappingIn(a, depth+1); h != "" {
				return h
			}
		}
	case *ssa.Slice:
		return caseMappingIn(x.X, depth+1)
	case *ssa.Phi:
		for _, e := range x.Edges {
			if h := caseMappingIn(e, depth+1); h != "" {
				return h
			}
		}
	case *ssa.BinOp:
		if h := caseMappingIn(x.X, depth+1); h != "" {
			return h
		}
		return caseMappingIn(x.Y, depth+1)
	case *ssa.Convert:
		return caseMappingIn(x.X, depth+1)
	}
	return ""
}

// hasPhi: the boolean is (a negation of) a phi, i.e. an && / || expression kept in a value.
func hasPhi(v ssa.Value) bool {
	for i := 0; i < 4; i++ {
		if u, ok := v.(*ssa.UnOp); ok && u.Op == token.NOT {
			v = u.X
			continue
		}
		break
	}
	_, ok := v.(*ssa.Phi)
	return ok
}
