package main

// C19 — the bookmark database behaves as a persistent name-to-file map.

import (
	"fmt"
	"go/token"
	"go/types"
	"strings"

	"golang.org/x/tools/go/ssa"
)

func init() {
	register(&propSpec{
		id:    "C19",
		level: "other",
		explain: "Decided on the SSA program: (P19-rmw) ManipulateBookmarks reads the database, applies the callback, and writes bc.ToJson() of that same collection to the same database path only on the nil edges of the read and callback errors; every caller returns its error; " +
			"(P19-cmd-effects / P19-unset-fails) the callbacks of set / unset / clear call Set(bookmark) / Remove(name) / Clear() on the collection they are given, unset fails on every path where Remove reported false, info fails whenever Get found nothing; " +
			"(P19-remove) Remove deletes exactly the key given and reports false without a change when absent, Set stores under the bookmark's own name, Clear replaces the map; (P19-sorted) All() returns the slice it sorted ascending by name and both ToJson and list iterate All(); " +
			"(P19-json-sym) writer and reader use the same JSON record type, the reader rejects missing fields and relative paths and Sets every entry; (P19-names/P19-resolve) set/unset/info/@name resolution normalise the key with NewName, and NewName's empty-name fallback, Default() and NewDefaultBookmark use one and the same constant. " +
			"Not covered: behaviour over sequences of processes (file system state), name normalisation details (TrimLeft), JSON escaping (encoding/json).",
		rules:   []ruleFn{ruleP19Rmw, ruleP19AbsentDb, ruleP19CmdEffects, ruleP19Remove, ruleP19Sorted, ruleP19JsonSym, ruleP19Names, ruleP19NameStrip, ruleP19Persist, ruleP19ValidName},
		trusted: []string{"encoding/json round-trips a struct of two strings", "os.WriteFile / os.ReadFile (I/O faults out of scope)"},
	})
}

func ruleP19Rmw(p *Prog, r *Report) {
	const rule = "P19-rmw"
	impls := p.implsOf("klog/app", "Context", "ManipulateBookmarks")
	if len(impls) == 0 {
		r.undecided(rule, "anchor", "-", "no implementation of Context.ManipulateBookmarks")
		return
	}
	for _, f := range impls {
		key := fnName(f)
		var read, cb ssa.CallInstruction
		eachInstr(f, func(in ssa.Instruction) {
			c, ok := in.(ssa.CallInstruction)
			if !ok {
				return
			}
			if p.isBookmarkRead(c) {
				read = c
			}
			if !c.Common().IsInvoke() && staticCallee(c) == nil {
				if prm, ok := strip(c.Common().Value).(*ssa.Parameter); ok && prm == f.Params[len(f.Params)-1] {
					cb = c
				}
			}
		})
		sites := p.writeSitesIn(f)
		var w ssa.CallInstruction
		for _, s := range sites {
			for _, a := range s.Common().Args {
				if bt, ok := a.Type().Underlying().(*types.Basic); ok && bt.Info()&types.IsString != 0 {
					w = s
				}
			}
		}
		if read == nil || cb == nil || w == nil {
			r.undecided(rule, key+":anchors", p.pos(f.Pos()), "expected ReadBookmarks, a call of the callback and a file write (found %v %v %v)", read != nil, cb != nil, w != nil)
			continue
		}
		bc, bErr := resultOf(read, 0), resultOf(read, 1)
		mErr := resultOf(cb, 0)
		if bc == nil || bErr == nil || mErr == nil {
			r.bad(rule, key+":results", p.pos(f.Pos()), "a result of ReadBookmarks or of the callback is discarded")
			continue
		}
		for _, pr := range []struct {
			e    ssa.Value
			what string
			at   ssa.CallInstruction
		}{{bErr, "read", read}, {mErr, "callback", cb}} {
			msg, how := p.checkForwarding(f, pr.e, lastResultIdx)
			r.check(msg == "", rule, key+":"+pr.what+"-error", p.instrPos(pr.at), pr.what+" error is returned ("+how+")", "the "+pr.what+" error is not returned: "+msg)
			r.check(knownNil(w.Block(), pr.e), rule, key+":write-after-"+pr.what, p.instrPos(w), "the write is dominated by the nil edge of the "+pr.what+" error", "the database is written although the "+pr.what+" failed")
		}
		r.check(len(cb.Common().Args) == 1 && sameValue(cb.Common().Args[0], bc), rule, key+":callback-arg", p.instrPos(cb), "the callback receives the collection that was read", "the callback does not receive the collection read from the database")
		// data = bc.ToJson() ; path = same as ReadBookmarks reads
		okData, okPath := false, false
		var pathCallee *ssa.Function
		for _, a := range w.Common().Args {
			if n, recv, _, _ := methodCall(a); n == "ToJson" && sameValue(recv, bc) {
				okData = true
			}
			if c, idx := callOf(a); c != nil && idx == 0 && typeNameOf(a.Type()) == "File" {
				pathCallee = staticCallee(c)
			}
		}
		r.check(okData, rule, key+":data", p.instrPos(w), "writes ToJson() of the manipulated collection", "the bytes written are not ToJson() of the collection the callback manipulated")
		// ReadBookmarks implementation reads from the same path function
		bodies := p.implsOf("klog/app", "Context", "ReadBookmarks")
		if g := rawStaticCallee(read); g != nil && !read.Common().IsInvoke() {
			if n, _, _, _ := methodCallOf(read); n != "ReadBookmarks" {
				// the function ReadBookmarks forwards to, called directly: its parameters stand
				// for the arguments of this call
				bodies = []*ssa.Function{originFn(g)}
				ht.ctx[originFn(g)] = read
			}
		}
		for _, rb := range bodies {
			eachVInstr(rb, func(in ssa.Instruction) {
				if c, ok := in.(ssa.CallInstruction); ok {
					if g := staticCallee(c); g != nil && fnBase(g) == "ReadFile" {
						if pc, idx := callOf(c.Common().Args[0]); pc != nil && idx == 0 && pathCallee != nil && sameFn(staticCallee(pc), pathCallee) {
							okPath = true
						}
					}
				}
			})
		}
		r.check(okPath, rule, key+":path", p.instrPos(w), "reads and writes the same database path", "the database is not written to the path it is read from")
		// the write's own error is the result
		if e := resultOf(w, errResultIndex(w.Common().Signature())); e != nil {
			msg, how := p.checkForwarding(f, e, lastResultIdx)
			r.check(msg == "", rule, key+":write-error", p.instrPos(w), "write error returned ("+how+")", "write error not returned: "+msg)
		} else {
			r.bad(rule, key+":write-error", p.instrPos(w), "the write's error is discarded")
		}
		// no write before the callback
		wb := blockIn(f, w)
		r.check(reachableFrom(cb.Block(), nil)[wb] && !reachableFrom(wb, nil)[cb.Block()] || cb.Block() == wb, rule, key+":order", p.instrPos(w), "read -> manipulate -> write", "the write does not follow the manipulation")
	}
	// callers return the error
	n := 0
	for _, f := range p.srcFns {
		eachInstr(f, func(in ssa.Instruction) {
			c, ok := in.(ssa.CallInstruction)
			if !ok || !c.Common().IsInvoke() || c.Common().Method.Name() != "ManipulateBookmarks" {
				return
			}
			n++
			e := resultOf(c, 0)
			key := "caller:" + fnName(f)
			if e == nil {
				r.bad(rule, key, p.instrPos(c), "the error of ManipulateBookmarks is discarded")
				return
			}
			msg, how := p.checkForwarding(f, e, lastResultIdx)
			r.check(msg == "", rule, key, p.instrPos(c), "error returned ("+how+")", "the error of ManipulateBookmarks is not returned: "+msg)
			// success output only on the nil edge: any Print after the call must be on the nil edge
			eachInstr(f, func(in2 ssa.Instruction) {
				c2, ok := in2.(ssa.CallInstruction)
				if ok && c2.Common().IsInvoke() && c2.Common().Method.Name() == "Print" && c.Block().Dominates(c2.Block()) && c2 != c {
					if !knownNil(c2.Block(), e) && reachableFrom(c.Block(), nil)[c2.Block()] && c2.Block() != c.Block() {
						r.bad(rule, key+":print", p.instrPos(c2), "success output although the database update may have failed")
					}
				}
			})
		})
	}
	if n < 3 {
		r.undecided(rule, "floor:callers", "-", "found %d callers of ManipulateBookmarks, expected set/unset/clear", n)
	}
}

// manipulateCallback returns the closure passed to ctx.ManipulateBookmarks in run.
func manipulateCallback(run *ssa.Function) (*ssa.Function, ssa.CallInstruction) {
	var cb *ssa.Function
	var call ssa.CallInstruction
	eachInstr(run, func(in ssa.Instruction) {
		c, ok := in.(ssa.CallInstruction)
		if ok && c.Common().IsInvoke() && c.Common().Method.Name() == "ManipulateBookmarks" && len(c.Common().Args) == 1 {
			cb = funcLiteral(c.Common().Args[0])
			call = c
		}
	})
	return cb, call
}

func ruleP19CmdEffects(p *Prog, r *Report) {
	const rule = "P19-cmd-effects"
	newName := p.fn("klog/app", "NewName")
	if !r.anchorFn(rule, newName, "app.NewName") {
		return
	}
	type spec struct{ cmd, op string }
	for _, s := range []spec{{"BookmarksSet", "Set"}, {"BookmarksUnset", "Remove"}, {"BookmarksClear", "Clear"}} {
		run := p.method("klog/app/cli", s.cmd, "Run")
		if !r.anchorFn(rule, run, s.cmd+".Run") {
			continue
		}
		cb, call := manipulateCallback(run)
		if cb == nil {
			r.bad(rule, s.cmd+":callback", p.pos(run.Pos()), "%s does not pass a function literal to ManipulateBookmarks", s.cmd)
			continue
		}
		bc := cb.Params[0]
		var op ssa.CallInstruction
		nOps := 0
		eachInstr(cb, func(in ssa.Instruction) {
			c, ok := in.(ssa.CallInstruction)
			if !ok || !c.Common().IsInvoke() || strip(c.Common().Value) != ssa.Value(bc) {
				return
			}
			switch c.Common().Method.Name() {
			case "Set", "Remove", "Clear":
				nOps++
				if c.Common().Method.Name() == s.op {
					op = c
				}
			}
		})
		if op == nil || nOps != 1 {
			r.bad(rule, s.cmd+":effect", p.pos(cb.Pos()), "the callback of %s does not apply exactly %s() to the collection it is given", s.cmd, s.op)
			continue
		}
		// unconditional
		r.check(len(guardsOf(op.Block())) == 0 && skippableAt(op.Block(), nil) == nil, rule, s.cmd+":effect", p.instrPos(op), s.op+"() is applied unconditionally to the collection given", s.op+"() is applied only conditionally")
		// once the database has been written the command has happened: no failure is reported
		// afterwards (every check that can refuse the command comes before the write)
		if e := resultOf(call, 0); e != nil {
			late := ""
			for _, ret := range plainReturnsOf(run) {
				if call.Block().Dominates(ret.Block()) && knownNil(ret.Block(), e) && !isNilConst(retResult(ret, 0)) && p.nilnessAt(ret.Block(), retResult(ret, 0), 0) != nnNil {
					late = p.instrPos(ret)
				}
			}
			r.check(late == "", rule, s.cmd+":no-failure-after-write", p.instrPos(call), "after the database was written the command reports success", s.cmd+" can report a failure ("+late+") after ManipulateBookmarks has already written the database: a refused command leaves its change behind")
		}
		switch s.op {
		case "Set":
			// the bookmark: NewBookmark(opt.Name, file) / NewDefaultBookmark(file) when the name is empty
			// every alternative of the value (closure returns, if/else assignments, helper returns)
			bmv := deref(op.Common().Args[0])
			if fv, isFV := strip(op.Common().Args[0]).(*ssa.UnOp); isFV && bmv == ssa.Value(fv) {
				// a captured variable with several assignments: look at the variable itself
				if inner, ok := fv.X.(*ssa.FreeVar); ok {
					if b := freeVarBinding(inner); b != nil {
						if al, isA := b.(*ssa.Alloc); isA {
							for _, ref := range *al.Referrers() {
								if ld, isLd := ref.(*ssa.UnOp); isLd && ld.Op == token.MUL {
									bmv = ld
									break
								}
							}
							if bmv == ssa.Value(fv) {
								// no load in the parent: synthesise rows from the stores
								bmv = &ssa.UnOp{Op: token.MUL, X: al}
							}
						}
					}
				}
			}
			rows := valueRows(bmv, 0, map[ssa.Value]bool{})
			okB := len(rows) > 0
			for _, rw := range rows {
				rc, _ := callOf(rw.val)
				if rc == nil || staticCallee(rc) == nil {
					okB = false
					continue
				}
				switch fnBase(staticCallee(rc)) {
				case "NewBookmark":
					if tag, _ := fieldTagOfLoad(rc.Common().Args[0]); tag != "bookmark" {
						okB = false
					}
				case "NewDefaultBookmark":
					// only when the name is empty
					if len(rows) == 1 {
						okB = false
					}
					empty := false
					for _, gd := range rw.guards {
						if b, ok := gd.Cond.(*ssa.BinOp); ok {
							if sv, isS := constString(b.Y); isS && sv == "" && (b.Op == token.EQL) == gd.Pol {
								if tag, _ := fieldTagOfLoad(b.X); tag == "bookmark" {
									empty = true
								}
							}
						}
					}
					if !empty {
						okB = false
					}
				default:
					okB = false
				}
			}
			r.check(okB, rule, s.cmd+":bookmark", p.instrPos(op), "sets the bookmark named by the argument (unnamed -> default bookmark)", "the bookmark that is set is not NewBookmark(name argument, file) / NewDefaultBookmark(file) for the empty name")
			// what is validated is what is stored: the target handed to ReadInputs for the
			// validity check is the Path() of the very File the bookmark is made of (the raw
			// argument may be read as something else — `@team.klg` is a bookmark name to ReadInputs)
			var stored []ssa.Value
			for _, rw := range rows {
				if rc, _ := callOf(rw.val); rc != nil && len(rc.Common().Args) > 0 {
					stored = append(stored, rc.Common().Args[len(rc.Common().Args)-1])
				}
			}
			eachVInstr(run, func(in ssa.Instruction) {
				c, ok := in.(ssa.CallInstruction)
				if !ok || !c.Common().IsInvoke() || c.Common().Method.Name() != "ReadInputs" {
					return
				}
				okSame := false
				if es, isLit := sliceLitElems(c.Common().Args[0]); isLit && len(es) == 1 {
					v := strip(es[0])
					if cv, isConv := v.(*ssa.Convert); isConv {
						v = strip(cv.X)
					}
					if ct, isCT := v.(*ssa.ChangeType); isCT {
						v = strip(ct.X)
					}
					if nm, recv, _, _ := methodCall(v); nm == "Path" && recv != nil {
						for _, sv := range stored {
							if sameValue(recv, sv) || strip(recv) == strip(sv) {
								okSame = true
							}
						}
					}
				}
				r.check(okSame, rule, s.cmd+":validated-target", p.instrPos(c), "the target that is validated is the Path() of the file that is stored", "`bookmarks set` validates something other than the path of the file it stores: a target that ReadInputs reads differently from NewFile (a file name beginning with @) is refused although valid, or a dangling path is stored because a bookmark of that name exists")
			})
		case "Remove":
			c, ok := isCallTo(op.Common().Args[0], newName, 0)
			okN := false
			if ok {
				tag, _ := fieldTagOfLoad(c.Common().Args[0])
				okN = tag == "bookmark"
			}
			r.check(okN, rule, s.cmd+":name", p.instrPos(op), "removes NewName(name argument)", "unset does not remove NewName(its name argument)")
			// P19-unset-fails: on every path where Remove returned false -> error
			res := op.Value()
			okFail := false
			for _, b := range cb.Blocks {
				iff, isIf := b.Instrs[len(b.Instrs)-1].(*ssa.If)
				if !isIf {
					continue
				}
				gs := flattenCond(iff.Cond, true, iff)
				if strip(gs[0].Cond) != res {
					continue
				}
				falseSucc := b.Succs[1]
				if !gs[0].Pol {
					falseSucc = b.Succs[0]
				}
				{
					msg := rejectComplete(falseSucc, func(ret *ssa.Return) string {
						if p.nilnessAt(ret.Block(), retResult(ret, 0), 0) != nnNonNil {
							return "returns nil"
						}
						return ""
					})
					okFail = msg == ""
				}
			}
			r.check(okFail, "P19-unset-fails", s.cmd, p.instrPos(op), "unknown name -> error (so the database is not rewritten)", "unset of an unknown name does not fail on every path")
		}
		_ = call
	}
	// info: Get(NewName(arg)); nil -> error on every path
	info := p.method("klog/app/cli", "BookmarksInfo", "Run")
	if r.anchorFn(rule, info, "BookmarksInfo.Run") {
		var get ssa.CallInstruction
		eachInstr(info, func(in ssa.Instruction) {
			if c, ok := in.(ssa.CallInstruction); ok && c.Common().IsInvoke() && c.Common().Method.Name() == "Get" {
				get = c
			}
		})
		if get == nil {
			r.bad(rule, "BookmarksInfo:get", p.pos(info.Pos()), "info does not look the bookmark up")
		} else {
			c, ok := isCallTo(get.Common().Args[0], newName, 0)
			okN := false
			if ok {
				tag, _ := fieldTagOfLoad(c.Common().Args[0])
				okN = tag == "bookmark"
			}
			r.check(okN, rule, "BookmarksInfo:name", p.instrPos(get), "looks up NewName(name argument)", "info does not look up NewName(its name argument)")
			bm := get.Value()
			nonNil, nilB, ok2 := errorEdge(info, bm)
			_ = nonNil
			msg := "the bookmark is not tested for nil"
			if ok2 {
				{
					msg = rejectComplete(nilB, func(ret *ssa.Return) string {
						if p.nilnessAt(ret.Block(), retResult(ret, 0), 0) != nnNonNil {
							return "returns nil for an unknown bookmark"
						}
						return ""
					})
				}
			}
			r.check(msg == "", rule, "BookmarksInfo:unknown", p.instrPos(get), "unknown bookmark -> error", "info of an unknown bookmark does not fail: "+msg)
			// printed data are fields of that bookmark's target
			okPrint, nPrint := true, 0
			eachInstr(info, func(in ssa.Instruction) {
				c, ok := in.(ssa.CallInstruction)
				if !ok || !c.Common().IsInvoke() || c.Common().Method.Name() != "Print" {
					return
				}
				nPrint++
				if !knownNonNil(c.Block(), bm) {
					okPrint = false
				}
				if !mentions(c.Common().Args[0], bm, 0) {
					okPrint = false
				}
			})
			r.check(okPrint && nPrint > 0, rule, "BookmarksInfo:print", p.pos(info.Pos()), "prints fields of the bookmark found", "info prints something that is not derived from the bookmark found")
		}
	}
	// list iterates All()
	list := p.method("klog/app/cli", "BookmarksList", "Run")
	if r.anchorFn(rule, list, "BookmarksList.Run") {
		okAll := false
		eachInstr(list, func(in ssa.Instruction) {
			c, ok := in.(ssa.CallInstruction)
			if !ok || !c.Common().IsInvoke() || c.Common().Method.Name() != "Print" {
				return
			}
			// printed value mentions an element of All()
			if mentionsRangeOver(c.Common().Args[0], "All", 0) {
				okAll = true
			}
		})
		r.check(okAll, rule, "BookmarksList:all", p.pos(list.Pos()), "list prints the elements of All() in order", "list does not print the elements of All()")
	}
}

// mentions: the expression tree of v (through string concatenation and calls) contains src.
func mentions(v, src ssa.Value, depth int) bool {
	if depth > 10 {
		return false
	}
	v = strip(v)
	if v == strip(src) {
		return true
	}
	switch x := v.(type) {
	case *ssa.BinOp:
		return mentions(x.X, src, depth+1) || mentions(x.Y, src, depth+1)
	case *ssa.Call:
		if x.Call.IsInvoke() && mentions(x.Call.Value, src, depth+1) {
			return true
		}
		for _, a := range x.Call.Args {
			if mentions(a, src, depth+1) {
				return true
			}
		}
	case *ssa.Phi:
		for _, e := range x.Edges {
			if mentions(e, src, depth+1) {
				return true
			}
		}
	case *ssa.UnOp:
		if x.Op == token.MUL {
			d := deref(x)
			if d != ssa.Value(x) {
				return mentions(d, src, depth+1)
			}
		}
	}
	return false
}

func mentionsRangeOver(v ssa.Value, method string, depth int) bool {
	if depth > 10 {
		return false
	}
	v = strip(v)
	if coll := rangeElemOf(v); coll != nil {
		if n, _, _, _ := methodCall(coll); n == method {
			return true
		}
	}
	switch x := v.(type) {
	case *ssa.BinOp:
		return mentionsRangeOver(x.X, method, depth+1) || mentionsRangeOver(x.Y, method, depth+1)
	case *ssa.Call:
		if x.Call.IsInvoke() && mentionsRangeOver(x.Call.Value, method, depth+1) {
			return true
		}
		for _, a := range x.Call.Args {
			if mentionsRangeOver(a, method, depth+1) {
				return true
			}
		}
	}
	return false
}

func ruleP19Remove(p *Prog, r *Report) {
	const rule = "P19-remove"
	rem := p.method("klog/app", "bookmarksCollection", "Remove")
	set := p.method("klog/app", "bookmarksCollection", "Set")
	clr := p.method("klog/app", "bookmarksCollection", "Clear")
	get := p.method("klog/app", "bookmarksCollection", "Get")
	if !r.anchorFn(rule, rem, "Remove") || !r.anchorFn(rule, set, "Set") || !r.anchorFn(rule, clr, "Clear") || !r.anchorFn(rule, get, "Get") {
		return
	}
	isMap := func(v ssa.Value, fn *ssa.Function) bool {
		base, fld := fieldLoad(v)
		return fld == "bookmarks" && base != nil && strip(base) == ssa.Value(fn.Params[0])
	}
	// Remove
	var del ssa.CallInstruction
	eachInstr(rem, func(in ssa.Instruction) {
		if c, ok := in.(*ssa.Call); ok {
			if bi, ok := c.Call.Value.(*ssa.Builtin); ok && bi.Name() == "delete" {
				del = c
			}
		}
	})
	if del == nil {
		r.bad(rule, "Remove:delete", p.pos(rem.Pos()), "Remove never deletes")
	} else {
		a := del.Common().Args
		r.check(isMap(a[0], rem) && strip(a[1]) == ssa.Value(rem.Params[1]), rule, "Remove:delete", p.instrPos(del), "deletes exactly the key given", "Remove does not delete exactly the key it is given")
		for i, ret := range returnsOf(rem) {
			v, isC := constBool(retResult(ret, 0))
			after := del.Block().Dominates(ret.Block())
			ok := isC && v == after
			r.check(ok, rule, fmt.Sprintf("Remove:return#%d", i), p.instrPos(ret), "reports true exactly when it deleted", "Remove's result does not say whether the key was deleted")
		}
		// the delete happens only when the key is present; absent -> no store
		present := false
		for _, g := range guardsOf(del.Block()) {
			if x, isNil, ok := nilFact(g); ok && !isNil {
				if lk, isLk := strip(x).(*ssa.Lookup); isLk && isMap(lk.X, rem) && strip(lk.Index) == ssa.Value(rem.Params[1]) {
					present = true
				}
				// through the collection's own Get (a plain lookup of that key, P19-names)
				if nm, recv, gargs, _ := methodCall(x); nm == "Get" && len(gargs) == 1 && recv != nil && strip(recv) == ssa.Value(rem.Params[0]) && strip(gargs[0]) == ssa.Value(rem.Params[1]) {
					present = true
				}
			}
		}
		r.check(present, rule, "Remove:present", p.instrPos(del), "deletes only a key that is present (absent -> false, nothing changes)", "Remove does not test the presence of the very key")
	}
	// Set: bookmarks[b.Name()] = b
	okSet := false
	eachInstr(set, func(in ssa.Instruction) {
		if mu, ok := in.(*ssa.MapUpdate); ok && isMap(mu.Map, set) {
			n, recv, _, _ := methodCall(mu.Key)
			if n == "Name" && strip(recv) == ssa.Value(set.Params[1]) && strip(mu.Value) == ssa.Value(set.Params[1]) {
				okSet = true
			}
		}
	})
	r.check(okSet, rule, "Set", p.pos(set.Pos()), "Set stores the bookmark under its own name", "Set does not store the bookmark under b.Name()")
	// Clear: bc.bookmarks = make(map)
	okClr := false
	eachInstr(clr, func(in ssa.Instruction) {
		if st, ok := in.(*ssa.Store); ok {
			if fa, ok := st.Addr.(*ssa.FieldAddr); ok && fieldName(fa) == "bookmarks" {
				if _, isMk := strip(st.Val).(*ssa.MakeMap); isMk {
					okClr = true
				}
			}
		}
		// or the map emptied in place
		if c, ok := in.(*ssa.Call); ok {
			if bi, isB := c.Call.Value.(*ssa.Builtin); isB && bi.Name() == "clear" && len(c.Call.Args) == 1 && isMap(c.Call.Args[0], clr) && len(guardsOf(c.Block())) == 0 {
				okClr = true
			}
		}
	})
	r.check(okClr, rule, "Clear", p.pos(clr.Pos()), "Clear replaces the map by an empty one", "Clear does not replace the map by a new empty map")
	// Get: lookup of the key given
	okGet := false
	for _, ret := range returnsOf(get) {
		if lk, ok := strip(retResult(ret, 0)).(*ssa.Lookup); ok && isMap(lk.X, get) && strip(lk.Index) == ssa.Value(get.Params[1]) {
			okGet = true
		}
	}
	if lk := getterLookup(get); !okGet && lk != nil && isMap(lk.X, get) && strip(lk.Index) == ssa.Value(get.Params[1]) {
		okGet = true // `if b, ok := m[k]; ok { return b }; return nil`
	}
	r.check(okGet, rule, "Get", p.pos(get.Pos()), "Get looks up the key given", "Get does not look up the key it is given")
}

func ruleP19Sorted(p *Prog, r *Report) {
	const rule = "P19-sorted"
	all := p.method("klog/app", "bookmarksCollection", "All")
	if !r.anchorFn(rule, all, "All") {
		return
	}
	rets := returnsOf(all)
	if len(rets) != 1 {
		r.bad(rule, "All:returns", p.pos(all.Pos()), "All has several returns")
		return
	}
	res := retResult(rets[0], 0)
	// the returned slice is a variable cell (captured by the comparator) or an SSA value
	var cell *ssa.Alloc
	if u, ok := strip(res).(*ssa.UnOp); ok && u.Op == token.MUL {
		cell = cellOf(u.X)
	}
	isRes := func(v ssa.Value) bool {
		if cell != nil {
			u, ok := strip(v).(*ssa.UnOp)
			return ok && u.Op == token.MUL && cellOf(u.X) == cell
		}
		return sameValue(v, res)
	}
	var sortCall ssa.CallInstruction
	var less *ssa.Function
	var site sortSite
	for _, s := range p.sortSitesIn(all) {
		if isRes(s.coll) {
			sortCall, less, site = s.call, s.less, s
		}
	}
	if sortCall == nil || less == nil {
		r.bad(rule, "All:sorted", p.pos(all.Pos()), "All() does not sort the slice it returns")
		return
	}
	r.check(sortCall.Block().Dominates(rets[0].Block()), rule, "All:sorted", p.instrPos(sortCall), "the returned slice is sorted on every path", "the sort does not dominate the return")
	// no append after the sort
	okNoAppend := true
	if cell != nil {
		for _, s := range storesTo(cell) {
			if s.in.Parent() == all && reachableFrom(sortCall.Block(), nil)[s.in.Block()] && s.in.Block() != sortCall.Block() {
				okNoAppend = false
			}
		}
	}
	r.check(okNoAppend, rule, "All:final", p.instrPos(sortCall), "nothing is added after sorting", "elements are added after the sort")
	// comparator: res[i].Name() < res[j].Name()
	okCmp := false
	otherOrder := ""
	for _, ret := range returnsOf(less) {
		b, ok := strip(retResult(ret, 0)).(*ssa.BinOp)
		if !ok || (b.Op != token.LSS && b.Op != token.LEQ) {
			// a return that answers by something other than the names: a second sort criterion
			otherOrder = p.instrPos(ret)
			continue
		}
		idx := func(v ssa.Value) ssa.Value {
			n, recv, _, _ := methodCall(v)
			if n != "Name" {
				if cv, ok := strip(v).(*ssa.Convert); ok {
					n, recv, _, _ = methodCall(cv.X)
				}
				if n != "Name" {
					return nil
				}
			}
			u, ok := strip(recv).(*ssa.UnOp)
			if !ok {
				return nil
			}
			ia, ok := u.X.(*ssa.IndexAddr)
			if !ok {
				return nil
			}
			return strip(ia.Index)
		}
		if idx(b.X) == ssa.Value(site.i) && idx(b.Y) == ssa.Value(site.j) {
			okCmp = true
		}
	}
	r.check(okCmp, rule, "All:ascending", p.pos(less.Pos()), "ascending by Name()", "the comparator is not name[i] < name[j]")
	if okCmp {
		r.check(otherOrder == "", rule, "All:by-name-only", p.pos(less.Pos()), "the name is the only sort criterion", "the comparator also orders by something other than the name (return at "+otherOrder+"): the list and the database are not ordered by name")
	}
	// every element of the map is collected: append in a range over the map, unconditional
	okCollect := false
	eachInstr(all, func(in ssa.Instruction) {
		if c, ok := in.(*ssa.Call); ok {
			if bi, ok := c.Call.Value.(*ssa.Builtin); ok && bi.Name() == "append" {
				if only, _ := onlyLoopGuards(c.Block()); only {
					els, ok2 := sliceLitElems(c.Call.Args[1])
					if ok2 && len(els) == 1 {
						if ex, ok := strip(els[0]).(*ssa.Extract); ok {
							if nx, ok := ex.Tuple.(*ssa.Next); ok {
								if rg, ok := nx.Iter.(*ssa.Range); ok {
									if _, fld := fieldLoad(rg.X); fld == "bookmarks" && ex.Index == 2 {
										okCollect = true
									}
								}
							}
						}
					}
				}
			}
		}
	})
	r.check(okCollect, rule, "All:complete", p.pos(all.Pos()), "every bookmark of the map is collected", "All() does not collect every value of the map unconditionally")
	// ToJson iterates All()
	tj := p.method("klog/app", "bookmarksCollection", "ToJson")
	if r.anchorFn(rule, tj, "ToJson") {
		okTJ := false
		eachInstr(tj, func(in ssa.Instruction) {
			if ia, ok := in.(*ssa.IndexAddr); ok && isRangeIndex(ia.Index) {
				if n, recv, _, _ := methodCall(ia.X); n == "All" && strip(recv) == ssa.Value(tj.Params[0]) {
					okTJ = true
				}
			}
		})
		r.check(okTJ, rule, "ToJson:order", p.pos(tj.Pos()), "ToJson serialises All() in order", "ToJson does not iterate All()")
	}
}

func ruleP19JsonSym(p *Prog, r *Report) {
	const rule = "P19-json-sym"
	tj := p.method("klog/app", "bookmarksCollection", "ToJson")
	fj := p.fn("klog/app", "NewBookmarksCollectionFromJson")
	if !r.anchorFn(rule, tj, "ToJson") || !r.anchorFn(rule, fj, "NewBookmarksCollectionFromJson") {
		return
	}
	var encT, decT types.Type
	eachVInstr(tj, func(in ssa.Instruction) {
		if c, ok := in.(ssa.CallInstruction); ok {
			if g := staticCallee(c); g != nil && fnBase(g) == "Encode" && strings.Contains(g.String(), "encoding/json") {
				if mi, ok := c.Common().Args[1].(*ssa.MakeInterface); ok {
					encT = mi.X.Type()
				}
			}
		}
	})
	var unm ssa.CallInstruction
	eachVInstr(fj, func(in ssa.Instruction) {
		if c, ok := in.(ssa.CallInstruction); ok {
			if g := staticCallee(c); g != nil && g.String() == "encoding/json.Unmarshal" {
				unm = c
				if mi, ok := c.Common().Args[1].(*ssa.MakeInterface); ok {
					decT = mi.X.Type()
				}
			}
		}
	})
	// (json encodes a value and a pointer to it alike)
	if pt, isP := encT.(*types.Pointer); isP && encT != nil {
		encT = pt.Elem()
	}
	if pt, isP := decT.(*types.Pointer); isP && decT != nil {
		decT = pt.Elem()
	}
	r.check(encT != nil && decT != nil && types.Identical(encT, decT), rule, "same-type", p.pos(tj.Pos()), fmt.Sprintf("writer and reader use %v", encT), fmt.Sprintf("writer encodes %v but reader decodes %v", encT, decT))
	if unm == nil {
		return
	}
	// ToJson fills name and path from the bookmark
	okFields := 0
	eachVInstr(tj, func(in ssa.Instruction) {
		st, ok := in.(*ssa.Store)
		if !ok {
			return
		}
		fa, ok := st.Addr.(*ssa.FieldAddr)
		if !ok || typeNameOf(fa.X.Type()) != "bookmarkJson" {
			return
		}
		// value is pointer to a local holding b.Name().Value() / b.Target().Path()
		a, ok := strip(st.Val).(*ssa.Alloc)
		if !ok {
			return
		}
		sts := storesTo(a)
		if len(sts) != 1 {
			return
		}
		n, recv, _, _ := methodCall(sts[0].val)
		n2, _, _, _ := methodCall(recv)
		if fieldName(fa) == "Name" && n == "Value" && n2 == "Name" {
			okFields++
		}
		if fieldName(fa) == "Path" && n == "Path" && n2 == "Target" {
			okFields++
		}
	})
	r.check(okFields == 2, rule, "writer-fields", p.pos(tj.Pos()), "name <- b.Name().Value(), path <- b.Target().Path()", "ToJson does not write the bookmark's name and target path into the name/path fields")
	// reader: unmarshal error -> error; Set dominated by name!=nil, path!=nil, IsAbs
	if e := resultOf(unm, 0); e != nil {
		msg, how := p.checkForwarding(fj, e, lastResultIdx)
		r.check(msg == "", rule, "reader:malformed", p.instrPos(unm), "malformed JSON -> error ("+how+")", "malformed JSON is not rejected: "+msg)
	} else {
		r.bad(rule, "reader:malformed", p.instrPos(unm), "the error of json.Unmarshal is discarded")
	}
	var set ssa.CallInstruction
	eachInstr(fj, func(in ssa.Instruction) {
		if c, ok := in.(ssa.CallInstruction); ok && c.Common().IsInvoke() && c.Common().Method.Name() == "Set" {
			set = c
		}
	})
	if set == nil {
		r.bad(rule, "reader:set", p.pos(fj.Pos()), "the reader never Sets an entry")
		return
	}
	hasName, hasPath, isAbs := false, false, false
	for _, g := range guardsOf(set.Block()) {
		if x, isNil, ok := nilFact(g); ok && !isNil {
			_, fld := fieldLoad(x)
			if fld == "Name" {
				hasName = true
			}
			if fld == "Path" {
				hasPath = true
			}
		}
		if c, ok := g.Cond.(*ssa.Call); ok && g.Pol {
			if callee := staticCallee(c); callee != nil && fnBase(callee) == "IsAbs" {
				isAbs = true
			}
		}
	}
	r.check(hasName && hasPath, rule, "reader:fields", p.instrPos(set), "entries without name or path are rejected", "an entry with a missing field can be stored")
	r.check(isAbs, rule, "reader:absolute", p.instrPos(set), "relative paths are rejected", "an entry with a relative path can be stored")
	// Set(NewBookmark(*b.Name, file(*b.Path)))
	okArg := false
	if c, idx := callOf(set.Common().Args[0]); c != nil && idx == 0 {
		if g := staticCallee(c); g != nil && fnBase(g) == "NewBookmark" {
			a := c.Common().Args
			u, ok := strip(a[0]).(*ssa.UnOp)
			if ok && u.Op == token.MUL {
				if _, fld := fieldLoad(u.X); fld == "Name" {
					if fc, fidx := callOf(a[1]); fc != nil && fidx == 0 && staticCallee(fc) != nil && fnBase(staticCallee(fc)) == "NewFile" {
						okArg = true
					}
				}
			}
		}
	}
	r.check(okArg, rule, "reader:set", p.instrPos(set), "every entry is Set as NewBookmark(name, NewFile(path))", "the reader does not Set NewBookmark(entry name, file of entry path)")
}

func ruleP19Names(p *Prog, r *Report) {
	const rule = "P19-names"
	newName := p.fn("klog/app", "NewName")
	def := p.method("klog/app", "bookmarksCollection", "Default")
	ndb := p.fn("klog/app", "NewDefaultBookmark")
	nb := p.fn("klog/app", "NewBookmark")
	if !r.anchorFn(rule, newName, "NewName") || !r.anchorFn(rule, def, "Default") || !r.anchorFn(rule, ndb, "NewDefaultBookmark") || !r.anchorFn(rule, nb, "NewBookmark") {
		return
	}
	// NewName: empty -> constant
	fallback := ""
	okFb := false
	unconv := func(v ssa.Value) ssa.Value {
		v = strip(v)
		if cv, ok := v.(*ssa.Convert); ok {
			v = strip(cv.X)
		}
		if ch, ok := v.(*ssa.ChangeType); ok {
			v = strip(ch.X)
		}
		return v
	}
	for _, ret := range returnsOf(newName) {
		for _, rw := range valueRows(unconv(retResult(ret, 0)), 0, map[ssa.Value]bool{}) {
			s, isS := constString(unconv(rw.val))
			if !isS {
				continue
			}
			// the row must be the one where the (stripped) value is empty
			for _, g := range append(append([]Guard{}, rw.guards...), guardsOf(ret.Block())...) {
				if _, isEmpty, isG := emptyGuard(g); isG && isEmpty {
					fallback, okFb = s, true
				}
			}
		}
	}
	r.check(okFb && fallback != "", rule, "NewName:fallback", p.pos(newName.Pos()), fmt.Sprintf("empty name -> %q", fallback), "NewName has no constant fallback for the empty name")
	// Default(): lookup of the same constant
	okDef := false
	for _, ret := range returnsOf(def) {
		if key, ok := lookupOf(retResult(ret, 0)); ok {
			if s, isS := constString(key); isS && s == fallback {
				okDef = true
			}
		}
	}
	r.check(okDef, rule, "Default:key", p.pos(def.Pos()), "Default() looks up the same constant", "Default() looks up a different key than NewName's fallback")
	okNdb := false
	for _, c := range callsTo(ndb, nb) {
		if s, isS := constString(c.Common().Args[0]); isS && (s == fallback || s == "") {
			okNdb = true
		}
	}
	// (or the bookmark built on the spot with that very name)
	eachInstr(ndb, func(in ssa.Instruction) {
		if st, ok := in.(*ssa.Store); ok {
			if fa, isFA := st.Addr.(*ssa.FieldAddr); isFA && fieldName(fa) == "name" && typeNameOf(derefType(fa.X.Type())) == "bookmark" {
				if sv, isS := constString(unconv(st.Val)); isS && sv == fallback {
					okNdb = true
				}
			}
		}
	})
	r.check(okNdb, rule, "NewDefaultBookmark:key", p.pos(ndb.Pos()), "NewDefaultBookmark uses the same constant", "NewDefaultBookmark uses a different name than NewName's fallback")
	// NewBookmark normalises with NewName
	okNb := false
	eachInstr(nb, func(in ssa.Instruction) {
		if c, ok := in.(ssa.CallInstruction); ok && sameFn(staticCallee(c), newName) && strip(c.Common().Args[0]) == ssa.Value(nb.Params[0]) {
			okNb = true
		}
	})
	r.check(okNb, rule, "NewBookmark:normalised", p.pos(nb.Pos()), "NewBookmark normalises the name with NewName", "NewBookmark does not normalise its name with NewName")
	// P19-resolve: FileRetriever
	fr := p.method("klog/app", "FileRetriever", "Retrieve")
	if !r.anchorFn("P19-resolve", fr, "FileRetriever.Retrieve") {
		return
	}
	okGet, okDefault := false, false
	for _, f := range withAnons(fr) {
		eachInstr(f, func(in ssa.Instruction) {
			c, ok := in.(ssa.CallInstruction)
			if !ok || !c.Common().IsInvoke() {
				return
			}
			switch c.Common().Method.Name() {
			case "Get":
				if nc, ok := isCallTo(c.Common().Args[0], newName, 0); ok {
					// guarded by IsValidBookmarkName(same string)
					for _, g := range guardsOf(c.Block()) {
						if gc, ok := g.Cond.(*ssa.Call); ok && g.Pol {
							if callee := staticCallee(gc); callee != nil && fnBase(callee) == "IsValidBookmarkName" && sameValue(gc.Call.Args[0], nc.Common().Args[0]) {
								okGet = true
							}
						}
					}
				}
			case "Default":
				// only when no arguments are given
				for _, g := range guardsOf(c.Block()) {
					if _, isNil, ok := nilFact(g); ok && isNil {
						okDefault = true
					}
				}
			}
		})
	}
	r.check(okGet, "P19-resolve", "at-name", p.pos(fr.Pos()), "@name resolves through bookmarks.Get(NewName(arg))", "@name arguments are not resolved through Get(NewName(arg))")
	// … and through nothing else: whenever the argument has the form of a bookmark name, the
	// only path that is opened is the target of the bookmark found (an unknown name is an
	// error, never a file that happens to be called like that)
	if newFile := p.fn("klog/app", "NewFile"); newFile != nil {
		nOpen := 0
		for _, vc := range virtualCallsTo(fr, newFile) {
			vc.run(func() {
				opened := vc.call.Common().Args[0]
				if es, ok := sliceLitElems(opened); ok && len(es) == 1 {
					opened = es[0] // NewFile(path ...string)
				}
				for _, rw := range valueRows(opened, 0, map[ssa.Value]bool{}) {
					if rw.errv != nil && !isNilConst(rw.errv) {
						continue // handed back together with an error
					}
					isName := false
					for _, g := range rw.guards {
						if gc, ok := g.Cond.(*ssa.Call); ok && g.Pol {
							if callee := staticCallee(gc); callee != nil && fnBase(callee) == "IsValidBookmarkName" {
								isName = true
							}
						}
					}
					if !isName {
						continue
					}
					nOpen++
					okPath := false
					if pc, ok := isInvokeOf(rw.val, "Path", 0); ok {
						if _, recv, _, _ := methodCallOf(pc); recv != nil {
							if tc, ok := isInvokeOf(recv, "Target", 0); ok {
								if _, recv2, _, _ := methodCallOf(tc); recv2 != nil {
									_, okPath = isInvokeOf(recv2, "Get", 0)
								}
							}
						}
					}
					pos := p.instrPos(vc.call)
					if rw.at != nil {
						pos = p.instrPos(rw.at)
					}
					r.check(okPath, "P19-resolve", fmt.Sprintf("at-name:only#%d", nOpen), pos, "for an argument of bookmark-name form the path opened is the target of the bookmark found", "an argument of bookmark-name form can be opened as "+describeValue(rw.val)+" instead of the target of the bookmark found: `@name` reads something although no such bookmark is set")
				}
			})
		}
		if okGet && nOpen == 0 {
			r.undecided("P19-resolve", "at-name:only", p.pos(fr.Pos()), "the path under which a bookmark-name argument is opened was not found")
		}
	}
	r.check(okDefault, "P19-resolve", "no-args", p.pos(fr.Pos()), "no argument resolves through Default()", "without arguments the default bookmark is not consulted (only) when no argument is given")
	// every argument resolves, or the command fails: files are handed out only when no argument
	// failed (an unknown @name next to a known one is an error, not a shorter list)
	var failures ssa.Value
	for _, ret := range returnsOf(fr) {
		if len(ret.Results) == 2 && !isNilConst(retResult(ret, 1)) {
			for _, g := range guardsOf(ret.Block()) {
				if x, isNil, ok := nilFact(g); ok && !isNil && isSliceOfBasic(x.Type()) {
					failures = x
				}
			}
		}
	}
	if failures == nil {
		r.undecided("P19-resolve", "all-or-nothing", p.pos(fr.Pos()), "the list of failed arguments that decides about the error return was not found")
	} else {
		for i, ret := range returnsOf(fr) {
			if len(ret.Results) != 2 || !isNilConst(retResult(ret, 1)) {
				continue
			}
			okNone := false
			for _, g := range guardsOf(ret.Block()) {
				if x, isNil, ok := nilFact(g); ok && isNil && (sameValue(x, failures) || strip(x) == strip(failures)) {
					okNone = true
				}
			}
			r.check(okNone, "P19-resolve", fmt.Sprintf("all-or-nothing:return#%d", i), p.instrPos(ret), "files are handed out only when no argument failed to resolve", "the file retriever can hand out files although some argument failed to resolve (an unknown @name, an unreadable file): the failure is dropped and the command works on a shorter list")
		}
	}
}

// edgeGuard: the condition implied by taking the edge from pb to succ.
func edgeGuard(pb, succ *ssa.BasicBlock) []Guard {
	if len(pb.Instrs) == 0 {
		return nil
	}
	iff, ok := pb.Instrs[len(pb.Instrs)-1].(*ssa.If)
	if !ok || pb.Succs[0] == pb.Succs[1] {
		return nil
	}
	return flattenCond(iff.Cond, pb.Succs[0] == succ, iff)
}

// isSliceOfBasic: t is a slice of a basic type ([]string — a list of messages).
func isSliceOfBasic(t types.Type) bool {
	sl, ok := t.Underlying().(*types.Slice)
	if !ok {
		return false
	}
	_, isB := sl.Elem().Underlying().(*types.Basic)
	return isB
}
