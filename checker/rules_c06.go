package main

// C06 — no file content can crash klog: absence of explicit crash paths.

import (
	"fmt"
	"go/token"
	"go/types"
	"regexp"
	"regexp/syntax"
	"sort"
	"strings"

	"golang.org/x/tools/go/ssa"
)

func init() {
	register(&propSpec{
		id:    "C06",
		level: "other",
		explain: "Absence of explicit crash paths from file content, decided on the call graph and SSA program: (P06-panics / P06-partial) every explicit panic reachable from both Parse implementations, the read-only commands, the error prettifier and the JSON serialiser is discharged by a guard contradiction, a precondition established at every reachable call site (bounded-integer domain), closed construction, a proof of another rule, or a reasoned exception keyed by function and panic identity; any other (new) reachable panic is a violation; " +
			"(P06-errpanic) no panic is control-dependent on the error of strconv.Atoi unless the digit group it parses is bounded by its regular expression; (P06-runewidth) a byte offset formed as index + len(string(rune)) (or utf8.RuneLen of the rune) is never used to slice the string being ranged over nor compared with a position in it (the end-of-text test); " +
			"(P06-shape) mapParse appends one value, one block and one error list per iteration and the parallel merge appends values and blocks pairwise; (P06-linetext = P10-epoch) the line stored in an error is a line of its block. " +
			"Not covered: implicit panics in general (index/slice bounds, nil dereference, negative Repeat counts, make) beyond the named patterns; termination; resource exhaustion.",
		rules: []ruleFn{ruleP06Panics, ruleP06NilRecord, ruleP06PrintWidth, ruleP06RuneWidth, ruleP06Shape, ruleP08LoopExit, ruleP07SliceGuard, ruleP10Epoch},
		trusted: []string{
			"type invariants of klog.Date/Time accessors (Year 0..9999, Month 1..12, Day 1..31, Weekday 1..7, Quarter 1..4, Hour 0..23, Minute 0..59), supported by P16-closed",
			"panics that depend only on clock, flags or configuration are out of the property's scope (file content) and are listed as such",
		},
	})
}

// parseImpls returns the Parse methods of the two engines as instantiated for klog.Record.
func (p *Prog) parseImpls() []*ssa.Function {
	var out []*ssa.Function
	add := func(t types.Type) {
		if t == nil {
			return
		}
		ms := p.prog.MethodSets.MethodSet(t)
		if sel := ms.Lookup(nil, "Parse"); sel != nil {
			if f := p.prog.MethodValue(sel); f != nil {
				out = append(out, f)
			}
		}
	}
	if g := p.global("klog/parser", "serialParser"); g != nil {
		add(g.Type().(*types.Pointer).Elem())
	}
	if f := p.fn("klog/parser", "NewParallelParser"); f != nil {
		add(concreteReturnType(f))
	}
	return out
}

func (p *Prog) c06Roots() ([]*ssa.Function, []string) {
	var roots []*ssa.Function
	var names []string
	for _, f := range p.parseImpls() {
		roots = append(roots, f)
		names = append(names, fnName(f))
	}
	_, ro, _ := p.mutatingCommands()
	for _, k := range sortedKeys(ro) {
		roots = append(roots, ro[k])
		names = append(names, k+".Run")
	}
	for _, pr := range [][2]string{{"klog/app/cli/util", "PrettifyParsingError"}, {"klog/parser/json", "ToJson"}} {
		if f := p.fn(pr[0], pr[1]); f != nil {
			roots = append(roots, f)
			names = append(names, pr[1])
		}
	}
	return roots, names
}

// panicIdent names a panic by its message, or by the provenance of its operand.
func panicIdent(pn *ssa.Panic) string {
	if s, ok := constString(pn.X); ok {
		return s
	}
	v := strip(pn.X)
	if b, ok := v.(*ssa.BinOp); ok && b.Op == token.ADD {
		if s, ok := constString(b.X); ok {
			return s + "..."
		}
	}
	if c, idx := callOf(v); c != nil {
		return fmt.Sprintf("result #%d of %s", idx, calleeName(c))
	}
	return "non-constant value"
}

// boundedInt: B6 — is the integer value bounded by construction (constants, accessors with a
// type invariant, arithmetic with constants)?
func boundedInt(v ssa.Value, depth int) bool {
	if depth > 6 {
		return false
	}
	v = deref(v)
	if _, ok := constInt(v); ok {
		return true
	}
	// the fields behind those accessors, read directly inside the value's own package
	if u, isU := v.(*ssa.UnOp); isU && u.Op == token.MUL {
		if fa, isFA := u.X.(*ssa.FieldAddr); isFA {
			switch typeNameOf(fa.X.Type()) + "." + fieldName(fa) {
			case "time.hour", "time.minute", "time.dayShift", "date.year", "date.month", "date.day":
				return true
			}
		}
	}
	switch x := v.(type) {
	case *ssa.Convert:
		return boundedInt(x.X, depth+1)
	case *ssa.BinOp:
		switch x.Op {
		case token.ADD, token.SUB, token.MUL:
			return boundedInt(x.X, depth+1) && boundedInt(x.Y, depth+1)
		case token.REM, token.QUO:
			return boundedInt(x.X, depth+1)
		}
	case *ssa.UnOp:
		if x.Op == token.SUB {
			return boundedInt(x.X, depth+1)
		}
	case *ssa.Phi:
		for _, e := range x.Edges {
			if !boundedInt(e, depth+1) {
				return false
			}
		}
		return true
	case *ssa.Call:
		n, recv, _, _ := methodCall(x)
		if recv != nil {
			switch typeNameOf(recv.Type()) {
			case "Date", "date":
				switch n {
				case "Year", "Month", "Day", "Weekday", "Quarter":
					return true
				}
			case "Time", "time":
				switch n {
				case "Hour", "Minute":
					return true
				}
			case "Rounding", "rounding":
				return n == "ToInt"
			}
		}
		if bi, ok := x.Call.Value.(*ssa.Builtin); ok && bi.Name() == "len" {
			return true
		}
	}
	return false
}

type panicCtx struct {
	p     *Prog
	r     *Report
	rc    *Reach
	fns   []*ssa.Function
	inSet map[*ssa.Function]bool
}

// callSitesOf lists reachable call sites whose callee may be target (modulo instantiation).
func (c *panicCtx) callSitesOf(target *ssa.Function) []ssa.CallInstruction {
	var out []ssa.CallInstruction
	for _, f := range c.fns {
		eachInstr(f, func(in ssa.Instruction) {
			site, ok := in.(ssa.CallInstruction)
			if !ok {
				return
			}
			for _, g := range c.p.calleesAt(site) {
				if sameFn(g, target) {
					out = append(out, site)
					return
				}
				// synthetic wrapper of target
				if g.Synthetic != "" && len(g.Blocks) > 0 {
					wraps := false
					eachInstr(g, func(in2 ssa.Instruction) {
						if c2, ok := in2.(ssa.CallInstruction); ok && sameFn(staticCallee(c2), target) {
							wraps = true
						}
					})
					if wraps {
						out = append(out, site)
						return
					}
				}
			}
		})
	}
	return out
}

func ruleP06Panics(p *Prog, r *Report) {
	const rule = "P06-panics"
	roots, names := p.c06Roots()
	if len(roots) < 8 {
		r.undecided(rule, "roots", "-", "only %d entry points found (%v)", len(roots), names)
		return
	}
	rc := p.reach(roots, nil, nil)
	ctx := &panicCtx{p: p, r: r, rc: rc, fns: rc.moduleFuncs(), inSet: map[*ssa.Function]bool{}}
	r.note("C06 entry points: %s; %d module functions reachable", strings.Join(names, ", "), len(ctx.fns))
	type site struct {
		f     *ssa.Function
		pn    *ssa.Panic
		chain []ssa.CallInstruction
	}
	var sites []site
	// a panic that was moved into a transparent helper belongs to the function(s) calling it
	var attribute func(f *ssa.Function, pn *ssa.Panic, chain []ssa.CallInstruction, depth int)
	attribute = func(f *ssa.Function, pn *ssa.Panic, chain []ssa.CallInstruction, depth int) {
		top := f
		for top.Parent() != nil {
			top = top.Parent()
		}
		if depth < 3 && top == f && isHelper(f) {
			for _, cs := range ht.sites[originFn(f)] {
				if cs.Parent() != nil && ctx.rc.has(cs.Parent()) {
					attribute(cs.Parent(), pn, append([]ssa.CallInstruction{cs}, chain...), depth+1)
				}
			}
			return
		}
		sites = append(sites, site{f, pn, chain})
	}
	for _, f := range ctx.fns {
		if f.Synthetic != "" {
			continue
		}
		eachInstr(f, func(in ssa.Instruction) {
			if pn, ok := in.(*ssa.Panic); ok {
				attribute(f, pn, nil, 0)
			}
		})
	}
	sort.SliceStable(sites, func(i, j int) bool { return p.instrPos(sites[i].pn) < p.instrPos(sites[j].pn) })
	seenKey := map[string]int{}
	for _, s := range sites {
		s := s
		var undo func()
		if len(s.chain) > 0 {
			// resolve the helper's parameters through this call chain for the rest of the iteration
			saved := map[*ssa.Function]ssa.CallInstruction{}
			for _, cs := range s.chain {
				if g := rawStaticCallee(cs); g != nil {
					g = originFn(g)
					saved[g] = ht.ctx[g]
					ht.ctx[g] = cs
					ht.pinned[g] = true
				}
			}
			undo = func() {
				for g, old := range saved {
					delete(ht.pinned, g)
					if old == nil {
						delete(ht.ctx, g)
					} else {
						ht.ctx[g] = old
					}
				}
			}
		}
		func() {
			if undo != nil {
				defer undo()
			}
			fname := fnName(originFn(s.f))
			ident := panicIdent(s.pn)
			key := fname + ":" + ident
			seenKey[key]++
			if seenKey[key] > 1 {
				key += fmt.Sprintf("#%d", seenKey[key])
			}
			pos := p.instrPos(s.pn)
			path := strings.Join(rc.path(s.f), " -> ")
			switch {
			case ident == "blocking select matched no case":
				// not in the source: go/ssa ends the lowering of a `select` without default with
				// this panic, which no execution reaches (one of the cases was chosen)
			case fname == "klog.Unbox":
				ctx.dischargeUnbox(rule, key, s.f, s.pn)
			case fname == "klog.NewDurationWithFormat":
				ctx.dischargeDurationCtor(key, s.f, s.pn)
			case fname == "(klog.duration).Plus":
				r.bad("P06-partial", "klog.duration.Plus:overflow", pos, "duration.Plus panics on integer overflow and is reachable with operands taken from the file (e.g. service.Total folding every entry): two entries of 153722867280912930h crash every evaluation; path: %s", path)
			case isAtoiErr(s.pn.X):
				ctx.dischargeAtoiPanic(key, s.f, s.pn)
			case fname == "(klog/parser/engine.ParallelBatchParser[T]).Parse":
				ctx.dischargeWorkers(rule, key, s.pn)
			case fname == "(*klog/service/period.bitMask).populate" || fname == "(klog/service/period.bitMask).populate":
				ctx.dischargePopulate(rule, key, s.pn)
			case fname == "klog/app/cli/util.PrettyMonth":
				ctx.dischargeSwitch(rule, key, s.f, s.pn, 1, 12, "Month")
			case fname == "klog/app/cli/util.PrettyDay":
				ctx.dischargeSwitch(rule, key, s.f, s.pn, 1, 7, "Weekday")
			case fname == "(klog/service/period.Quarter).Period":
				r.check(switchCovers(s.pn.Block(), "Quarter", 1, 4), rule, key, pos, "unreachable: the switch covers every value of Quarter() (1..4)", "the switch over Quarter() no longer covers 1..4: the panic is reachable")
			case fname == "klog.NewTagOrPanic":
				ctx.dischargeTagOrPanic(rule, key, s.f, s.pn)
			case fname == "(*klog.date).PlusDays":
				ctx.dischargePlusDays(key, s.f, s.pn)
			case fname == "klog/parser.parse" && ident == "Could not detect indentation":
				r.assume(rule, key, pos, "reasoned exception: the entries loop is entered either after the summary loop stopped at an indented line (indentator != nil) or with no lines left (the summary loop consumes one line per iteration of a range over the same slice); confirmed by reading")
			case fname == "klog.NewDateFromGo" || fname == "klog.NewTimeFromGo":
				r.assume(rule, key, pos, "out of scope (not file content): the operand is a clock reading; time.Time accessors are always a valid civil date/time")
			case fname == "klog/app.NewFileOrPanic":
				r.assume(rule, key, pos, "out of scope (not file content): paths come from arguments/configuration and are made absolute by NewFile or joined onto an absolute folder")
			case fname == "klog/app/cli/terminalformat.NewStyler":
				r.assume(rule, key, pos, "out of scope (not file content): the theme comes from validated configuration or a constant")
			case fname == "klog/app/cli/terminalformat.NewTable":
				ctx.dischargeNewTable(rule, key, s.f, s.pn)
			case fname == "klog/parser/json.ToJson" || fname == "(*klog/app.bookmarksCollection).ToJson":
				r.assume(rule, key, pos, "reasoned exception: encoding/json cannot fail on structs of strings, ints and slices of those (invalid UTF-8 is replaced, not rejected)")
			case fname == "(klog/service/period.Year).Previous":
				r.assume(rule, key, pos, "out of scope for C06 (not file content): reached only through --last-year, i.e. from the clock; the calendar-end defect itself is recorded under C15 (P15-total)")
			default:
				r.bad(rule, key, pos, "reachable explicit panic that no rule discharges (new panic?); path: %s", path)
			}
		}()
	}
	if len(sites) < 12 {
		r.undecided(rule, "floor", "-", "only %d reachable panic sites found, expected at least 12 (call graph incomplete?)", len(sites))
	}
	// helper functions of the test utilities must not be reachable at all
	for _, f := range ctx.fns {
		if strings.HasPrefix(f.Name(), "Ɀ_") {
			r.bad(rule, "testutil:"+f.Name(), p.pos(f.Pos()), "test helper %s (panics on failure) is reachable from production entry points", f.Name())
		}
	}
}

func (c *panicCtx) dischargeUnbox(rule, key string, f *ssa.Function, pn *ssa.Panic) {
	p, r := c.p, c.r
	// closed construction: Entry.value is only ever stored from a parameter of one of the three
	// interface types, and Unbox switches over exactly these
	want := map[string]bool{"Range": true, "Duration": true, "OpenRange": true}
	ok := true
	n := 0
	for _, g := range p.srcFns {
		eachInstr(g, func(in ssa.Instruction) {
			st, isSt := in.(*ssa.Store)
			if !isSt {
				return
			}
			fa, isFa := st.Addr.(*ssa.FieldAddr)
			if !isFa || typeNameOf(fa.X.Type()) != "Entry" || fieldName(fa) != "value" || typePkgPath(fa.X.Type()) != modPath+"/klog" {
				return
			}
			n++
			v := st.Val
			if mi, isMi := v.(*ssa.MakeInterface); isMi {
				v = mi.X
			}
			if ci, isCi := v.(*ssa.ChangeInterface); isCi {
				v = ci.X
			}
			if prm, isP := v.(*ssa.Parameter); !isP || !want[typeNameOf(prm.Type())] {
				ok = false
			}
		})
	}
	// the switch in Unbox: type assertions to the three types precede the panic
	covered := map[string]bool{}
	for _, g := range guardsOf(pn.Block()) {
		if ex, isEx := g.Cond.(*ssa.Extract); isEx && !g.Pol {
			if ta, isTa := ex.Tuple.(*ssa.TypeAssert); isTa {
				covered[typeNameOf(ta.AssertedType)] = true
			}
		}
	}
	okSwitch := covered["Range"] && covered["Duration"] && covered["OpenRange"]
	r.check(ok && n >= 3 && okSwitch, rule, key, p.instrPos(pn), fmt.Sprintf("closed construction: Entry.value is stored at %d sites, always from a Range/Duration/OpenRange parameter, and the switch covers all three", n), "Entry.value can hold something the switch in Unbox does not cover (or a case was removed)")
	r.trust("a zero klog.Entry{} (value nil) is only returned together with ok=false (findNthEntry) and never unboxed")
}

func (c *panicCtx) dischargeDurationCtor(key string, f *ssa.Function, pn *ssa.Panic) {
	p, r := c.p, c.r
	const rule = "P06-partial"
	ctor := originFn(f)
	wrappers := map[*ssa.Function]bool{ctor: true}
	// wrappers: module functions that forward their own parameters to the constructor
	for changed := true; changed; {
		changed = false
		for _, g := range p.srcFns {
			if wrappers[originFn(g)] {
				continue
			}
			eachInstr(g, func(in ssa.Instruction) {
				site, ok := in.(ssa.CallInstruction)
				if !ok || staticCallee(site) == nil || !wrappers[originFn(staticCallee(site))] {
					return
				}
				a := site.Common().Args
				if len(a) >= 2 {
					_, p0 := strip(a[0]).(*ssa.Parameter)
					_, p1 := strip(a[1]).(*ssa.Parameter)
					if p0 && p1 && g.Parent() == nil {
						wrappers[originFn(g)] = true
						changed = true
					}
				}
			})
		}
	}
	n := 0
	ord := map[string]int{}
	for _, g := range c.fns {
		if wrappers[originFn(g)] {
			continue
		}
		eachInstr(g, func(in ssa.Instruction) {
			site, ok := in.(ssa.CallInstruction)
			if !ok || staticCallee(site) == nil || !wrappers[originFn(staticCallee(site))] {
				return
			}
			n++
			a := site.Common().Args
			gk := fnName(originFn(g))
			ord[gk]++
			k := fmt.Sprintf("%s:%s#%d", gk, fnBase(staticCallee(site)), ord[gk])
			h0, isK := constInt(a[0])
			switch {
			case isK && h0 == 0:
				r.ok(rule, k, p.instrPos(site), "hours = 0: 60*0 + minutes cannot overflow")
			case boundedInt(a[0], 0) && boundedInt(a[1], 0):
				r.ok(rule, k, p.instrPos(site), "hours and minutes are bounded by construction (constants / accessors with a type invariant)")
			default:
				r.bad(rule, k, p.instrPos(site), "%s is called with an unbounded number of hours taken from the input: 60*h+m overflows and the constructor panics (e.g. a duration of 153722867280912931h); path: %s", fnBase(staticCallee(site)), strings.Join(c.rc.path(g), " -> "))
			}
		})
	}
	r.check(n >= 10, "P06-panics", key, p.instrPos(pn), fmt.Sprintf("precondition checked at %d reachable call sites (see P06-partial)", n), fmt.Sprintf("only %d call sites of the duration constructors found", n))
}

// regexGroupDigitsBounded: is capture group `group` of the pattern a run of at most max digits?
func regexGroupDigitsBounded(pattern string, group int, max int) (bool, string) {
	re, err := syntax.Parse(pattern, syntax.Perl)
	if err != nil {
		return false, "pattern does not parse"
	}
	var found *syntax.Regexp
	var walk func(x *syntax.Regexp)
	walk = func(x *syntax.Regexp) {
		if x.Op == syntax.OpCapture && x.Cap == group {
			found = x
		}
		for _, s := range x.Sub {
			walk(s)
		}
	}
	walk(re)
	if found == nil {
		return false, "no such group"
	}
	var maxLen func(x *syntax.Regexp) int // -1 = unbounded or not digits
	maxLen = func(x *syntax.Regexp) int {
		switch x.Op {
		case syntax.OpCapture:
			return maxLen(x.Sub[0])
		case syntax.OpCharClass:
			// must be a subset of 0-9
			for i := 0; i+1 < len(x.Rune); i += 2 {
				if x.Rune[i] < '0' || x.Rune[i+1] > '9' {
					return -1
				}
			}
			return 1
		case syntax.OpLiteral:
			for _, r := range x.Rune {
				if r < '0' || r > '9' {
					return -1
				}
			}
			return len(x.Rune)
		case syntax.OpRepeat:
			if x.Max < 0 {
				return -1
			}
			m := maxLen(x.Sub[0])
			if m < 0 {
				return -1
			}
			return m * x.Max
		case syntax.OpQuest:
			return maxLen(x.Sub[0])
		case syntax.OpConcat:
			t := 0
			for _, s := range x.Sub {
				m := maxLen(s)
				if m < 0 {
					return -1
				}
				t += m
			}
			return t
		case syntax.OpEmptyMatch:
			return 0
		}
		return -1
	}
	m := maxLen(found)
	if m < 0 {
		return false, "group " + found.String() + " admits unboundedly many digits"
	}
	return m <= max, fmt.Sprintf("group %s admits at most %d digits", found.String(), m)
}

// patternOfMatch: v is match[i] with match := <global regexp>.FindStringSubmatch(...) -> (pattern, i).
func (p *Prog) patternOfMatch(v ssa.Value) (string, int, bool) {
	u, ok := strip(v).(*ssa.UnOp)
	if !ok || u.Op != token.MUL {
		return "", 0, false
	}
	ia, ok := u.X.(*ssa.IndexAddr)
	if !ok {
		return "", 0, false
	}
	i, ok := constInt(ia.Index)
	if !ok {
		return "", 0, false
	}
	n, recv, _, _ := methodCall(ia.X)
	if n != "FindStringSubmatch" {
		// the match handed out by a helper that answers nil for a text it refuses and the
		// submatches otherwise
		if c, _ := callOf(ia.X); c != nil {
			if _, inner := nilOrValueHelper(c); inner != nil {
				n, recv, _, _ = methodCall(inner)
			}
		}
	}
	if n != "FindStringSubmatch" {
		return "", 0, false
	}
	pat, ok := p.regexOfValue(recv)
	return pat, int(i), ok
}

// regexOfValue: the pattern of a *regexp.Regexp value: a load of a package-level variable
// initialised with regexp.MustCompile(const), or an inline MustCompile(const).
func (p *Prog) regexOfValue(v ssa.Value) (string, bool) {
	v = strip(v)
	if c, ok := v.(*ssa.Call); ok {
		if g := staticCallee(c); g != nil && (g.String() == "regexp.MustCompile" || g.String() == "regexp.MustCompilePOSIX") {
			return constString(c.Call.Args[0])
		}
	}
	if u, ok := v.(*ssa.UnOp); ok && u.Op == token.MUL {
		if g, ok := u.X.(*ssa.Global); ok {
			return p.regexOfGlobal(g)
		}
	}
	return "", false
}

func (p *Prog) regexOfGlobal(g *ssa.Global) (string, bool) {
	init := g.Pkg.Func("init")
	if init == nil {
		return "", false
	}
	pat, found, n := "", false, 0
	// exactly one store in the whole module: the initialiser
	for _, f := range p.srcFns {
		eachInstr(f, func(in ssa.Instruction) {
			if st, ok := in.(*ssa.Store); ok && st.Addr == ssa.Value(g) {
				n++
			}
		})
	}
	eachInstr(init, func(in ssa.Instruction) {
		if st, ok := in.(*ssa.Store); ok && st.Addr == ssa.Value(g) {
			n++
			if c, ok := strip(st.Val).(*ssa.Call); ok {
				if callee := staticCallee(c); callee != nil && callee.String() == "regexp.MustCompile" {
					pat, found = constString(c.Call.Args[0])
				}
			}
		}
	})
	if n != 1 {
		return "", false
	}
	return pat, found
}

func isAtoiErr(v ssa.Value) bool {
	call, idx := callOf(v)
	return call != nil && idx == 1 && staticCallee(call) != nil && staticCallee(call).String() == "strconv.Atoi"
}

func (c *panicCtx) dischargeAtoiPanic(key string, f *ssa.Function, pn *ssa.Panic) {
	p, r := c.p, c.r
	const rule = "P06-errpanic"
	// panic operand is the error of strconv.Atoi(match[i])
	call, idx := callOf(pn.X)
	if call == nil || idx != 1 || staticCallee(call) == nil || staticCallee(call).String() != "strconv.Atoi" {
		r.bad(rule, key, p.instrPos(pn), "panic whose operand is not the error of strconv.Atoi")
		return
	}
	pat, grp, ok := p.patternOfMatch(call.Common().Args[0])
	if !ok {
		r.bad(rule, key, p.instrPos(pn), "panic on the error of strconv.Atoi applied to a value that is not a capture group of a constant pattern")
		return
	}
	bounded, why := regexGroupDigitsBounded(pat, grp, 18)
	k := fmt.Sprintf("%s:Atoi(group %d)", fnName(originFn(f)), grp)
	if bounded {
		r.ok(rule, k, p.instrPos(pn), "strconv.Atoi cannot fail: %s", why)
	} else {
		r.bad(rule, k, p.instrPos(pn), "panic(error of strconv.Atoi) is reachable from file content: %s of %q, so a number such as 99999999999999999999 makes Atoi fail and the parser panic", why, pat)
	}
}

func (c *panicCtx) dischargeWorkers(rule, key string, pn *ssa.Panic) {
	p, r := c.p, c.r
	sub := &Report{p: p}
	ruleP07EngineSelect(p, sub)
	ok := true
	for _, o := range sub.Obligs {
		if o.Verdict != Discharged {
			ok = false
		}
	}
	// the panic's guard is NumberOfWorkers <= 0
	r.check(ok, rule, key, p.instrPos(pn), "unreachable: the parallel engine is only built with a worker count proven >= 1 (P07-engine-select)", "the worker count is not proven >= 1 at every construction site (see P07-engine-select)")
}

func (c *panicCtx) dischargePopulate(rule, key string, pn *ssa.Panic) {
	p, r := c.p, c.r
	ok := true
	detail := ""
	for _, kind := range []string{"Day", "Week", "Month", "Quarter", "Year"} {
		f := p.method("klog/service/period", kind, "Hash")
		if f == nil {
			ok = false
			continue
		}
		comps, good := p.hashComponents(f)
		total := 0
		for _, cc := range comps {
			total += cc.width
		}
		if !good || total > 32 {
			ok = false
			detail += fmt.Sprintf(" %s.Hash needs %d bits;", kind, total)
		}
	}
	// populate must only be called from the Hash methods
	pop := p.method("klog/service/period", "bitMask", "populate")
	for _, site := range c.callSitesOf(pop) {
		if fnBase(site.Parent()) != "Hash" {
			ok = false
			detail += " populate called from " + fnName(site.Parent()) + ";"
		}
	}
	// the argument above is about widths only: populate must not branch on the VALUE it is given
	// (Week.Hash passes the ISO week-year, which is -1, i.e. a huge uint32, for 0000-01-01)
	if pop != nil && len(pop.Params) >= 2 {
		val := pop.Params[1]
		var dependsOn func(v ssa.Value, depth int) bool
		dependsOn = func(v ssa.Value, depth int) bool {
			if depth > 8 {
				return false
			}
			v = strip(v)
			if v == ssa.Value(val) {
				return true
			}
			switch x := v.(type) {
			case *ssa.BinOp:
				return dependsOn(x.X, depth+1) || dependsOn(x.Y, depth+1)
			case *ssa.UnOp:
				return dependsOn(x.X, depth+1)
			case *ssa.Convert:
				return dependsOn(x.X, depth+1)
			case *ssa.Phi:
				for _, e := range x.Edges {
					if dependsOn(e, depth+1) {
						return true
					}
				}
			}
			return false
		}
		for _, b := range pop.Blocks {
			if iff, isIf := b.Instrs[len(b.Instrs)-1].(*ssa.If); isIf && dependsOn(iff.Cond, 0) {
				ok = false
				detail += " populate branches on the value it is given (" + p.instrPos(iff) + "): values outside the declared maximum occur for valid dates;"
			}
		}
	}
	r.check(ok, rule, key, p.instrPos(pn), "unreachable: every Hash method packs constant widths that sum to <= 32 bits, and populate decides on widths only", "a Hash method can reach the panic of the 32-bit mask:"+detail)
}

func (c *panicCtx) dischargeSwitch(rule, key string, f *ssa.Function, pn *ssa.Panic, lo, hi int64, acc string) {
	p, r := c.p, c.r
	covered := map[int64]bool{}
	for _, g := range guardsOf(pn.Block()) {
		bo, ok := g.Cond.(*ssa.BinOp)
		if !ok || bo.Op != token.EQL || g.Pol || strip(bo.X) != ssa.Value(f.Params[0]) {
			continue
		}
		if k, isK := constInt(bo.Y); isK {
			covered[k] = true
		}
	}
	ok := true
	for k := lo; k <= hi; k++ {
		if !covered[k] {
			ok = false
		}
	}
	r.check(ok, rule, key, p.instrPos(pn), fmt.Sprintf("the switch covers %d..%d, the range of Date.%s()", lo, hi, acc), fmt.Sprintf("the switch no longer covers %d..%d: a valid %s reaches the panic", lo, hi, strings.ToLower(acc)))
	// call sites pass the accessor (possibly cached in a field written from the accessor)
	for i, site := range c.callSitesOf(f) {
		a := site.Common().Args[0]
		n, recv, _, _ := methodCall(a)
		good := n == acc && recv != nil && typeNameOf(recv.Type()) == "Date"
		if !good {
			if _, fld := fieldLoad(a); fld != "" {
				// cached: the same function stores <date>.<acc>() into that field before the call
				eachInstr(site.Parent(), func(in ssa.Instruction) {
					if st, ok := in.(*ssa.Store); ok {
						if fa, ok := st.Addr.(*ssa.FieldAddr); ok && fieldName(fa) == fld {
							if n2, r2, _, _ := methodCall(st.Val); n2 == acc && r2 != nil && typeNameOf(r2.Type()) == "Date" && st.Block().Dominates(site.Block()) {
								good = true
							}
						}
					}
				})
			}
		}
		r.check(good, rule, fmt.Sprintf("%s:arg#%d", key, i), p.instrPos(site), "argument is Date."+acc+"()", "argument is not a Date."+acc+"() value: the range of the switch is not guaranteed")
	}
}

func (c *panicCtx) dischargeTagOrPanic(rule, key string, f *ssa.Function, pn *ssa.Panic) {
	p, r := c.p, c.r
	for i, site := range c.callSitesOf(f) {
		k := fmt.Sprintf("%s:%s#%d", key, fnName(originFn(site.Parent())), i)
		val := site.Common().Args[1]
		if s, ok := constString(val); ok && !(strings.Contains(s, "\"") && strings.Contains(s, "'")) {
			r.ok(rule, k, p.instrPos(site), "constant value %q cannot contain both quote characters", s)
			continue
		}
		if fnBase(site.Parent()) == "NewTagFromString" {
			r.assume(rule, k, p.instrPos(site), "reasoned exception: the value is group 3 of the tag pattern with its delimiting quotes trimmed; a double-quoted value cannot contain \", a single-quoted one cannot contain ', an unquoted one contains neither (P14-lang checks the pattern)")
			continue
		}
		r.bad(rule, k, p.instrPos(site), "NewTagOrPanic is called with a value that is not proven free of mixed quotes")
	}
}

func (c *panicCtx) dischargeNewTable(rule, key string, f *ssa.Function, pn *ssa.Panic) {
	p, r := c.p, c.r
	// guard: numberOfColumns <= 1 ; every call site passes >= 2: constant, or a sum containing
	// a constant-returning NumberOfPrefixColumns() >= 1 plus >= 1
	for i, site := range c.callSitesOf(f) {
		a := site.Common().Args[0]
		k := fmt.Sprintf("%s:%s#%d", key, fnName(originFn(site.Parent())), i)
		lb, ok := lowerBound(p, a, 0)
		r.check(ok && lb >= 2, rule, k, p.instrPos(site), fmt.Sprintf("column count >= %d", lb), "the column count is not provably >= 2")
	}
}

// lowerBound of an integer expression built from constants, phis, additions and
// constant-returning interface methods.
func lowerBound(p *Prog, v ssa.Value, depth int) (int64, bool) {
	if depth > 8 {
		return 0, false
	}
	v = deref(v)
	if k, ok := constInt(v); ok {
		return k, true
	}
	switch x := v.(type) {
	case *ssa.BinOp:
		if x.Op == token.ADD {
			a, ok1 := lowerBound(p, x.X, depth+1)
			b, ok2 := lowerBound(p, x.Y, depth+1)
			return a + b, ok1 && ok2
		}
	case *ssa.Phi:
		min := int64(1 << 40)
		for _, e := range x.Edges {
			if strip(e) == ssa.Value(x) {
				continue
			}
			b, ok := lowerBound(p, e, depth+1)
			if !ok {
				return 0, false
			}
			if b < min {
				min = b
			}
		}
		return min, true
	case *ssa.UnOp:
		if x.Op == token.MUL {
			if cell := cellOf(x.X); cell != nil {
				min := int64(1 << 40)
				for _, s := range storesTo(cell) {
					// n += k: self-referential stores only raise the bound when k >= 0
					if bo, ok := strip(s.val).(*ssa.BinOp); ok && bo.Op == token.ADD {
						if u, ok := strip(bo.X).(*ssa.UnOp); ok && cellOf(u.X) == cell {
							if k, ok := lowerBound(p, bo.Y, depth+1); ok && k >= 0 {
								continue
							}
							return 0, false
						}
					}
					b, ok := lowerBound(p, s.val, depth+1)
					if !ok {
						return 0, false
					}
					if b < min {
						min = b
					}
				}
				return min, true
			}
		}
	case *ssa.Call:
		if x.Call.IsInvoke() && len(x.Call.Args) == 0 {
			// all implementations return constants
			min := int64(1 << 40)
			impls := p.calleesAt(x)
			if len(impls) == 0 {
				return 0, false
			}
			for _, g := range impls {
				for _, ret := range returnsOf(g) {
					k, ok := constInt(retResult(ret, 0))
					if !ok {
						return 0, false
					}
					if k < min {
						min = k
					}
				}
			}
			return min, true
		}
		if g := staticCallee(x); g != nil && ((g.Parent() != nil && len(x.Call.Args) == 0) || isHelper(g)) {
			// local closure (or a transparent helper) returning a counted value
			min := int64(1 << 40)
			for _, ret := range returnsOf(g) {
				b, ok := lowerBound(p, retResult(ret, 0), depth+1)
				if !ok {
					return 0, false
				}
				if b < min {
					min = b
				}
			}
			return min, true
		}
	}
	return 0, false
}

var closureSuffix = regexp.MustCompile(`(\$\d+)+$`)

// plusDaysExceptions: reachable callers of Date.PlusDays with the reason why the step cannot
// leave the representable range for any file content.
var plusDaysExceptions = map[string]string{
	"klog/service.NewDateTime":                      "the day offset is -1/0/+1 and NewDateTime is only reached for records dated within one day of the clock date (futureEntriesChecker) or with the clock date itself",
	"klog/app/cli.allDatesRange":                    "walks forward one day at a time and stops as soon as the last record's (valid) date is reached",
	"(*klog/service.unclosedOpenRangeChecker).Warn": "receiver is the clock date (not file content)",
	"(*klog/service.futureEntriesChecker).Warn":     "receiver is the clock date (not file content)",
	"klog/service.CloseOpenRanges":                  "receiver is the clock date (not file content)",
	"(*klog/app/cli/util.FilterArgs).ApplyFilter":   "receivers are flag values / the clock date (C13 excludes query dates without representable neighbours)",
	"(*klog/app/cli/util.AtDateArgs).AtDate":        "receiver is the clock date (not file content)",
	"(*klog/app/cli/util.AtDateAndTimeArgs).AtTime": "receiver is the clock date (not file content)",
	"klog/app/cli.splitIntoCurrentAndOther":         "receiver is the clock date (not file content)",
	"(klog/service/period.Week).Period":             "period methods are reached from --period / shortcut flags and the clock only; their calendar-end defects are recorded under C15 (P15-total)",
	"(klog/service/period.Week).Previous":           "see Week.Period",
	"(klog/service/period.Month).Period":            "see Week.Period (and the forward step is guarded against 9999-12-31)",
	"(klog/service/period.Month).Previous":          "see Week.Period",
	"(klog/service/period.Quarter).Previous":        "see Week.Period",
	"klog/service/period.NewWeekFromString":         "operates on July 1st of the flag's year and at most 53 weeks around it: inside 0000..9999 except for W52/W53 of 9999 (flag value, not file content; recorded under C15)",
}

// derivesFromRecordDate: v is <Record>.Date(), possibly stepped (PlusDays) or chosen among
// several values one of which is.
func derivesFromRecordDate(v ssa.Value, depth int) bool {
	if depth > 4 || v == nil {
		return false
	}
	v = strip(v)
	if ph, ok := v.(*ssa.Phi); ok {
		for _, e := range ph.Edges {
			if derivesFromRecordDate(e, depth+1) {
				return true
			}
		}
		return false
	}
	n, recv, _, mc := methodCall(v)
	if mc == nil || recv == nil {
		return false
	}
	switch n {
	case "Date":
		return typeNameOf(recv.Type()) == "Record"
	case "PlusDays":
		return derivesFromRecordDate(recv, depth+1)
	}
	return false
}

func plusDaysReceiver(site ssa.CallInstruction) ssa.Value {
	cc := site.Common()
	if cc.IsInvoke() {
		return cc.Value
	}
	if len(cc.Args) > 0 {
		return cc.Args[0]
	}
	return nil
}

func (c *panicCtx) dischargePlusDays(key string, f *ssa.Function, pn *ssa.Panic) {
	p, r := c.p, c.r
	const rule = "P06-partial"
	n := 0
	seen := map[string]int{}
	for _, site := range c.callSitesOf(f) {
		n++
		// a step inside a transparent helper is a step of the function that calls the helper
		owner := site.Parent()
		for hops := 0; hops < 3; hops++ {
			top := owner
			for top.Parent() != nil {
				top = top.Parent()
			}
			if !isHelper(top) {
				break
			}
			hs := ht.sites[originFn(top)]
			if len(hs) == 0 {
				break
			}
			owner = hs[0].Parent()
		}
		caller := closureSuffix.ReplaceAllString(fnName(originFn(owner)), "")
		seen[caller]++
		k := fmt.Sprintf("PlusDays:%s", caller)
		// an exception that rests on "the receiver is the clock date" holds for every step in that
		// function only as long as none of them starts from a record's date (file content)
		if why := plusDaysExceptions[caller]; strings.HasPrefix(why, "receiver is the clock date") {
			if recv := plusDaysReceiver(site); recv != nil && derivesFromRecordDate(recv, 0) {
				r.bad(rule, k+":record-date", p.instrPos(site), "Date.PlusDays (panics outside 0000-9999) is applied to a record's date here: a record dated at the end of the representable range (0000-01-01, 9999-12-31) crashes the command; the exception for %s covers steps from the clock date only", caller)
				continue
			}
		}
		if seen[caller] > 1 {
			continue // one obligation per calling function
		}
		if args := site.Common().Args; len(args) > 0 {
			if kk, ok := constInt(args[len(args)-1]); ok && kk == 0 {
				r.ok(rule, k, p.instrPos(site), "PlusDays(0) is total")
				continue
			}
		}
		if caller == "klog/app/cli.allDatesRange" {
			// structural: the step is taken only while the date is strictly before a valid date
			recv := plusDaysReceiver(site)
			guarded := false
			for _, g := range guardsOf(site.Block()) {
				if n, rv, _, _ := methodCall(g.Cond); n == "IsAfterOrEqual" && !g.Pol && recv != nil && sameValue(rv, recv) {
					guarded = true
				}
			}
			r.check(guarded, rule, k, p.instrPos(site), "the step forward is taken only while the date is still before the (valid) last date", "allDatesRange steps to the next day before it has checked that the last date is not reached yet: report --fill panics when the last record is dated 9999-12-31")
			continue
		}
		if why, ok := plusDaysExceptions[caller]; ok {
			r.assume(rule, k, p.instrPos(site), "reasoned exception: %s", why)
			continue
		}
		r.bad(rule, k, p.instrPos(site), "Date.PlusDays (panics outside 0000-9999) is reachable from a new call site that is not in the reasoned-exception table; path: %s", strings.Join(c.rc.path(site.Parent()), " -> "))
	}
	r.check(n >= 8, "P06-panics", key, p.instrPos(pn), fmt.Sprintf("%d reachable call sites classified (see P06-partial)", n), "no reachable call sites of PlusDays found")
}

func ruleP06RuneWidth(p *Prog, r *Report) {
	const rule = "P06-runewidth"
	nLoops := 0
	for _, f := range p.srcFns {
		eachInstr(f, func(in ssa.Instruction) {
			rg, ok := in.(*ssa.Range)
			if !ok {
				return
			}
			if bt, isB := rg.X.Type().Underlying().(*types.Basic); !isB || bt.Info()&types.IsString == 0 {
				return
			}
			nLoops++
			// key (byte index) and rune of this iteration
			var keyV, runeV ssa.Value
			for _, ref := range *rg.Referrers() {
				nx, ok := ref.(*ssa.Next)
				if !ok {
					continue
				}
				for _, r2 := range *nx.Referrers() {
					if ex, ok := r2.(*ssa.Extract); ok {
						if ex.Index == 1 {
							keyV = ex
						}
						if ex.Index == 2 {
							runeV = ex
						}
					}
				}
			}
			if keyV == nil || runeV == nil {
				r.ok(rule, fnName(f)+":range-string", p.instrPos(in), "range over a string without using both index and rune")
				return
			}
			bad := false
			var at ssa.Instruction
			eachInstr(f, func(in2 ssa.Instruction) {
				b, ok := in2.(*ssa.BinOp)
				if !ok || b.Op != token.ADD {
					return
				}
				isKey := func(v ssa.Value) bool { return strip(v) == keyV }
				isRuneLen := func(v ssa.Value) bool {
					c, ok := strip(v).(*ssa.Call)
					if !ok {
						return false
					}
					// utf8.RuneLen(r): the width of the re-encoded rune
					if g := staticCallee(c); g != nil && g.String() == "unicode/utf8.RuneLen" {
						return strip(c.Call.Args[0]) == runeV
					}
					bi, ok := c.Call.Value.(*ssa.Builtin)
					if !ok || bi.Name() != "len" {
						return false
					}
					// len(string(r)) / len([]byte(string(r)))
					a := strip(c.Call.Args[0])
					for i := 0; i < 3; i++ {
						cv, ok := a.(*ssa.Convert)
						if !ok {
							return false
						}
						if strip(cv.X) == runeV {
							return true
						}
						a = strip(cv.X)
					}
					return false
				}
				if (isKey(b.X) && isRuneLen(b.Y)) || (isKey(b.Y) && isRuneLen(b.X)) {
					// used as a slice bound (directly or through a variable)
					if usedAsSliceBound(b, 0) {
						bad = true
						at = b
					}
				}
			})
			if bad {
				r.bad(rule, fnName(f), p.instrPos(at), "byte offset index + (re-encoded width of the rune) is used as a position in the string being ranged over: for an invalid UTF-8 byte the rune is U+FFFD (3 bytes re-encoded) but only 1 byte wide, so slices run past the end of the text and end-of-text tests miss the last line")
			} else {
				r.ok(rule, fnName(f), p.instrPos(in), "no slice bound is computed from the re-encoded width of the rune")
			}
		})
	}
	if nLoops == 0 {
		r.undecided(rule, "floor", "-", "no range-over-string loop found in the module (ParseBlock expected)")
	}
}

func usedAsSliceBound(v ssa.Value, depth int) bool {
	if depth > 4 || v.Referrers() == nil {
		return false
	}
	for _, ref := range *v.Referrers() {
		switch x := ref.(type) {
		case *ssa.Slice:
			if x.Low == v || x.High == v {
				return true
			}
		case *ssa.BinOp:
			// compared with a position (the end-of-text test `i + width == len(text)`): the same
			// byte arithmetic, decided wrongly for a byte that is not valid UTF-8
			switch x.Op {
			case token.EQL, token.NEQ, token.LSS, token.LEQ, token.GTR, token.GEQ:
				return true
			}
		case *ssa.Phi:
			if usedAsSliceBound(x, depth+1) {
				return true
			}
		case *ssa.Store:
			if c := cellOf(x.Addr); c != nil {
				for _, f := range withAnons(c.Parent()) {
					found := false
					eachInstr(f, func(in ssa.Instruction) {
						if u, ok := in.(*ssa.UnOp); ok && u.Op == token.MUL && cellOf(u.X) == c && usedAsSliceBound(u, depth+1) {
							found = true
						}
					})
					if found {
						return true
					}
				}
			}
		}
	}
	return false
}

func ruleP06Shape(p *Prog, r *Report) {
	const rule = "P06-shape"
	mp := p.method("klog/parser/engine", "SerialParser", "mapParse")
	if !r.anchorFn(rule, mp, "SerialParser.mapParse") {
		return
	}
	// the three result slices each receive exactly one element per iteration, in one block
	rets := returnsOf(mp)
	if len(rets) != 1 {
		r.bad(rule, "mapParse:returns", p.pos(mp.Pos()), "mapParse has %d returns", len(rets))
		return
	}
	var blocks []*ssa.BasicBlock
	for _, idx := range []int{0, 1, 3} {
		apps, leaves := accWeb(retResult(rets[0], idx))
		ok := len(apps) == 1
		for _, l := range leaves {
			if !isNilConst(l) {
				ok = false
			}
		}
		if ok {
			els, ok2 := sliceLitElems(apps[0].Call.Args[1])
			ok = ok2 && len(els) == 1
			blocks = append(blocks, apps[0].Block())
		}
		r.check(ok, rule, fmt.Sprintf("mapParse:result#%d", idx), p.instrPos(rets[0]), "grows by exactly one element per parsed block", "a result slice of mapParse does not grow by exactly one element per parsed block")
	}
	same := len(blocks) == 3 && blocks[0] == blocks[1] && blocks[1] == blocks[2]
	r.check(same, rule, "mapParse:lockstep", p.pos(mp.Pos()), "values, blocks and error lists are appended in lockstep", "values, blocks and error lists are not appended together (their indices would drift apart)")
	// serial Parse: records xor errors
	sp := p.method("klog/parser/engine", "SerialParser", "Parse")
	if r.anchorFn(rule, sp, "SerialParser.Parse") {
		cs := callsTo(sp, mp)
		if len(cs) == 1 {
			hasErr := resultOf(cs[0], 4)
			for i, ret := range returnsOf(sp) {
				key := fmt.Sprintf("serial:return#%d", i)
				if isNilConst(retResult(ret, 2)) {
					okG := false
					for _, g := range guardsOf(ret.Block()) {
						if hasErr != nil && strip(g.Cond) == hasErr && !g.Pol {
							okG = true
						}
					}
					r.check(okG && sameValue(retResult(ret, 0), resultOf(cs[0], 0)) && sameValue(retResult(ret, 1), resultOf(cs[0], 1)), "P01-norecord", key, p.instrPos(ret), "records and blocks are returned only when no block had errors", "records can be returned although a block had errors")
				} else {
					okE := isNilConst(retResult(ret, 0)) && isNilConst(retResult(ret, 1))
					r.check(okE, "P01-norecord", key, p.instrPos(ret), "errors -> no records, no blocks", "errors are returned together with records")
				}
			}
			// hasErrors is set exactly when an error list is non-nil
			okFlag := false
			if ph, ok := strip(retResult(rets[0], 4)).(*ssa.Phi); ok {
				phis, ins := phiCycle(ph)
				okFlag = true
				sawTrue := false
				// `flag = flag || errs != nil` keeps a raised flag: the constant true flows in on
				// the edge on which the flag itself was true
				preserved := false
				for q := range phis {
					for i, e := range q.Edges {
						if b, isB := constBool(e); !isB || !b {
							continue
						}
						pb := q.Block().Preds[i]
						for _, g := range append(append([]Guard{}, guardsOf(pb)...), edgeGuard(pb, q.Block())...) {
							if gq, isQ := strip(g.Cond).(*ssa.Phi); isQ && phis[gq] && g.Pol {
								preserved = true
							}
						}
					}
				}
				for _, in := range ins {
					b, isB := constBool(in)
					if !isB {
						// `flag = flag || errs != nil`: the raised value is the nil test of an error list
						if x, isNil, okN := nilFact(Guard{Cond: in, Pol: true}); okN && !isNil && isSliceOf(x.Type(), "Error") && preserved {
							sawTrue = true
							continue
						}
						okFlag = false
						continue
					}
					if b {
						sawTrue = true
					}
				}
				okFlag = okFlag && sawTrue
			}
			r.check(okFlag, "P01-norecord", "serial:has-errors", p.pos(mp.Pos()), "the error flag is raised when a block reports errors and never lowered", "the error flag of mapParse is not a latch raised by any block with errors")
		}
	}
	// parallel merge: values and blocks appended pairwise
	pp := p.method("klog/parser/engine", "ParallelBatchParser", "Parse")
	if r.anchorFn(rule, pp, "ParallelBatchParser.Parse") {
		var vals, blks ssa.Value
		for _, ret := range returnsOf(pp) {
			if !isNilConst(retResult(ret, 0)) {
				vals, blks = retResult(ret, 0), retResult(ret, 1)
			}
		}
		if vals == nil {
			r.bad(rule, "parallel:results", p.pos(pp.Pos()), "the parallel parser never returns records")
			return
		}
		va, _ := accWeb(vals)
		ba, _ := accWeb(blks)
		src := func(c *ssa.Call) string {
			a := c.Call.Args[1]
			if mc, _ := callOf(a); mc != nil {
				return fmt.Sprintf("%p", mc)
			}
			if base, fld := fieldLoad(a); fld != "" {
				_ = fld
				return leafKey(base)
			}
			return "?"
		}
		// (an append inside a local function of the merge counts once per call of that function)
		nSites := 0
		for _, v := range va {
			k := 1
			if g := v.Parent(); g != pp && isHelper(g) && len(ht.sites[originFn(g)]) > 1 {
				k = len(ht.sites[originFn(g)])
			}
			nSites += k
		}
		ok := len(va) == len(ba) && nSites >= 3
		if ok {
			for _, v := range va {
				found := false
				for _, b := range ba {
					if b.Block() == v.Block() && src(b) == src(v) {
						found = true
					}
				}
				if !found {
					ok = false
				}
			}
		}
		r.check(ok, rule, "parallel:pairwise", p.pos(pp.Pos()), fmt.Sprintf("values and blocks are appended pairwise from the same source at %d sites", len(va)), "the parallel merge does not append values and blocks pairwise (records and blocks would be misaligned)")
	}
}

// nilOrValueHelper: c calls a module function every return of which is either nil or one and the
// same value computed in it; returns the function and that value.
func nilOrValueHelper(c ssa.CallInstruction) (*ssa.Function, ssa.Value) {
	h := rawStaticCallee(c)
	if h == nil || gp == nil || !gp.inMod(h) || len(h.Blocks) == 0 || h.Signature.Results().Len() != 1 {
		return nil, nil
	}
	var val ssa.Value
	sawNil := false
	for _, ret := range plainReturnsOf(h) {
		v := plainDeref(ret.Results[0])
		if isNilConst(v) {
			sawNil = true
			continue
		}
		if val != nil && val != v {
			return nil, nil
		}
		val = v
	}
	if !sawNil || val == nil {
		return nil, nil
	}
	return h, val
}
