import subprocess, shutil, os, sys, json
BASE='/tmp/mut/base'
env=dict(os.environ, GOFLAGS='-mod=mod', GOPROXY='off')
env.pop('GOWORK',None)
M=[
("C08-maplines-omit","klog/parser/engine/serial.go","totalLines += len(block.Lines())\n","","P08-cursor"),
("C08-bytes-off","klog/parser/txt/block.go","bytesConsumed += len(currentLine)","bytesConsumed += len(line.Text) + len(line.LineEnding)","equiv"),
("C08-original","klog/parser/txt/line.go","return l.Text + l.LineEnding","return strings.TrimRight(l.Text, \" \") + l.LineEnding","P08-original"),
("C01-extra-indent-space","klog/parser/parser.go","if entry == nil || txt.IsSpaceOrTab(entry.Peek()) {","if entry == nil {","none(value)"),
("C01-summary-blank-nocheck","klog/summary.go","if len(l) == 0 || entrySummaryLinePattern.MatchString(l) {","if len(l) == 0 {","none(regex still there)"),
("C01-recsummary-pattern","klog/summary.go","var recordSummaryLinePattern = regexp.MustCompile(`^[\\p{Zs}\\t]`)","var recordSummaryLinePattern = regexp.MustCompile(`^[ \\t]`)","P01-lex"),
("C01-date-pattern-sep","klog/date.go","`^(\\d{4})[-/](\\d{2})[-/](\\d{2})$`","`^(\\d{4})[-/.](\\d{2})[-/.](\\d{2})$`","superset(no rule)"),
("C01-dur-pattern","klog/duration.go","`^([-+])?((\\d+)h)?((\\d+)m)?$`","`^([-+])?((\\d+)h)?((\\d{1,3})m)?$`","P01-lex(inclusion)"),
("C06-peekuntil","klog/parser/txt/parseable.go","for i := p.PointerPosition; i < len(p.Chars); i++ {","for i := p.PointerPosition; i <= len(p.Chars)-1; i++ {","equiv"),
("C06-subrune-guard","klog/parser/txt/util.go","if start >= len(text) {\n\t\treturn nil\n\t}","if start > len(text) {\n\t\treturn nil\n\t}","none(index)"),
("C07-tailtext","klog/parser/engine/parallel.go","if len(blocks) == 0 { // The remainder was empty or all blank\n\t\t\tresult.tailText = batchText","if len(blocks) == 0 { // The remainder was empty or all blank\n\t\t\tresult.tailText = \"\"","none(value)"),
("C07-carry-reset","klog/parser/engine/parallel.go","\t\t\tcarryText = \"\"\n","","none(value)"),
("C07-headtext-blank","klog/parser/engine/parallel.go","if len(batchText) == headBytesConsumed { // The entire batchText was a single block","if len(batchText) <= headBytesConsumed+0 { // The entire batchText was a single block","equiv"),
("C12-hash-dedupe","klog/app/cli/report.go","if hashesAlreadyProcessed[hash] {\n\t\t\tcontinue\n\t\t}","if hashesAlreadyProcessed[hash] && !opt.Fill {\n\t\t\tcontinue\n\t\t}","P12-group"),
("C12-fill-range","klog/app/cli/report.go","dates = allDatesRange(records[0].Date(), records[len(records)-1].Date())","dates = allDatesRange(records[0].Date(), records[len(records)-1].Date().PlusDays(-1))","none(value)"),
("C14-tags-firstline","klog/summary.go","for _, l := range s {\n\t\tfor _, m := range HashTagPattern.FindAllStringSubmatch(l, -1) {","for _, l := range s[:1] {\n\t\tfor _, m := range HashTagPattern.FindAllStringSubmatch(l, -1) {","P14(fold)"),
("C14-findall-limit","klog/summary.go","HashTagPattern.FindAllStringSubmatch(l, -1)","HashTagPattern.FindAllStringSubmatch(l, 5)","P14(const)"),
("C20-tags-unsorted","klog/parser/json/serialiser.go","sort.Slice(result, func(i, j int) bool {\n\t\treturn result[i] < result[j]\n\t})","_ = sort.Slice","none?"),
("C19-fromjson-relative","klog/app/bookmark.go","if !IsAbs(*b.Path) {\n\t\t\treturn nil, newMalformedJsonError(nil)\n\t\t}","if !IsAbs(*b.Path) {\n\t\t\tcontinue\n\t\t}","P19-json-sym"),
("C19-info-name","klog/app/cli/bookmarks.go","bookmark := bc.Get(app.NewName(opt.Name))","bookmark := bc.Get(app.Name(opt.Name))","P19-names"),
("C19-retriever-default","klog/app/retriever.go","b := retriever.bookmarks.Get(NewName(argValue))","b := retriever.bookmarks.Get(Name(strings.TrimPrefix(argValue, \"@\")))","P19-resolve(equiv-ish)"),
("C03-concat-space","klog/parser/reconciling/reconciler.go","if len(additionalSummary[0]) > 0 {","if len(additionalSummary[0]) >= 0 {","none(value)"),
("C03-insert-at","klog/parser/reconciling/append_entry.go","r.insert(r.lastLinePointer, toMultilineEntryTexts(\"\", newEntry))","r.insert(len(r.lines), toMultilineEntryTexts(\"\", newEntry))","none(value)"),
("C04-pause-tags","klog/parser/reconciling/pause_open_range.go","if appendTags {","if appendTags && len(summary) > 1 {","none(value)"),
("C04-extend-positive","klog/parser/reconciling/pause_open_range.go","return d.InMinutes() <= 0","return d.InMinutes() < 0","none(value)"),
("C05-retrieve-err","klog/app/context.go","target, err := ctx.RetrieveTargetFile(fileArg)\n\tif err != nil {\n\t\treturn nil, err\n\t}\n\trecords, blocks, errs","target, err := ctx.RetrieveTargetFile(fileArg)\n\tif err != nil && target == nil {\n\t\treturn nil, err\n\t}\n\trecords, blocks, errs","equiv-ish"),
("C11-tally-ge","klog/parser/reconciling/style.go","if count > max {","if count >= max {","P11-det(still map)"),
("C13-sort-desc-flag","klog/app/cli/util/args.go","if strings.ToLower(args.Sort) == \"asc\" {","if args.Sort == \"asc\" {","none(value)"),
("C13-filter-tags-any","klog/service/query.go","func isSubsetOf(queriedTags []klog.Tag, allTags *klog.TagSet) bool {\n\tfor _, t := range queriedTags {\n\t\tif !allTags.Contains(t) {\n\t\t\treturn false\n\t\t}\n\t}\n\treturn true","func isSubsetOf(queriedTags []klog.Tag, allTags *klog.TagSet) bool {\n\tfor _, t := range queriedTags {\n\t\tif allTags.Contains(t) {\n\t\t\treturn true\n\t\t}\n\t}\n\treturn len(queriedTags) == 0","none(value)"),
("C09-entry-summary-drop","klog/parser/serialiser.go","} else if i >= 1 {","} else if i == 1 {","P09-complete"),
("C18-format-noreset","klog/app/cli/terminalformat/style.go","return s.Format(text) + previousStyle.seqs()","return s.Format(text) + previousStyle.seqs() + \" \"","P18-format"),
("C18-summary-upper","klog/app/text_serialiser.go","return cs.Styler.Props(tf.StyleProps{Color: tf.TEXT_SUBDUED, IsBold: true}).FormatAndRestore(\n\t\t\th, summaryStyler,","return cs.Styler.Props(tf.StyleProps{Color: tf.TEXT_SUBDUED, IsBold: true}).FormatAndRestore(\n\t\t\tstrings.ToLower(h), summaryStyler,","P18-format"),
("C02-shouldsum-skip","klog/service/evaluate.go","total = total.Plus(r.ShouldTotal())","if r.ShouldTotal().InMinutes() > 0 {\n\t\t\ttotal = total.Plus(r.ShouldTotal())\n\t\t}","P02-fold"),
("C17-stop-noshift","klog/app/cli/stop.go","if shouldTryYesterday && reconciler.Record.Date().IsEqualTo(yesterday) {","if reconciler.Record.Date().IsEqualTo(yesterday) {","equiv-ish"),
("C17-wasautomatic","klog/app/cli/util/args.go","return args.Date == nil && args.Time == nil","return args.Date == nil","P17?"),
]
only=sys.argv[1:] 
res=[]
for (mid,f,old,new,rule) in M:
    if only and mid not in only: continue
    d='/tmp/mut/work'
    shutil.rmtree(d,ignore_errors=True)
    shutil.copytree(BASE,d)
    p=os.path.join(d,f)
    s=open(p).read()
    if s.count(old)!=1:
        res.append((mid,'NOAPPLY(%d)'%s.count(old),rule)); print(res[-1]); continue
    open(p,'w').write(s.replace(old,new))
    b=subprocess.run(['go','build','./...'],cwd=d,env=env,capture_output=True,text=True)
    if b.returncode!=0:
        # maybe unused import; show
        res.append((mid,'NOBUILD: '+b.stderr.strip().split('\n')[-1][:150],rule)); print(res[-1]); continue
    t=subprocess.run(['go','test','-count=1','./...'],cwd=d,env=env,capture_output=True,text=True)
    failed=[l for l in t.stdout.split('\n') if l.startswith('--- FAIL')]
    res.append((mid,'SURVIVES' if t.returncode==0 else 'KILLED by %d tests e.g. %s'%(len(failed), failed[0] if failed else '?'),rule)); print(res[-1])
shutil.rmtree('/tmp/mut/work',ignore_errors=True)
