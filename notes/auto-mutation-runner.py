import re, os, sys, shutil, subprocess, json, hashlib
from concurrent.futures import ThreadPoolExecutor
BASE='/tmp/mut/base'
env=dict(os.environ, GOFLAGS='-mod=mod', GOPROXY='off'); env.pop('GOWORK',None)
files=[l.strip() for l in subprocess.run("cd %s && find klog -name '*.go' ! -name '*_test.go' ! -name testutil.go ! -path '*/cli/version.go' ! -name 'sys_*.go' ! -name completion_predictors.go ! -name info.go ! -name edit.go ! -name goto.go"%BASE,shell=True,capture_output=True,text=True).stdout.split('\n') if l.strip()]
only=sys.argv[1:] 
if only: files=[f for f in files if any(o in f for o in only)]
ROR=[('==','!='),('!=','=='),('<=','<'),('>=','>'),(' < ',' <= '),(' > ',' >= ')]
def mutants_for(path):
    src=open(os.path.join(BASE,path)).read().split('\n')
    out=[]
    in_block_comment=False; in_raw=False
    for i,line in enumerate(src):
        s=line.strip()
        if s.startswith('//') or s=='' : continue
        if s.startswith('/*'): in_block_comment=True
        if in_block_comment:
            if '*/' in s: in_block_comment=False
            continue
        if line.count('`')%2==1: in_raw = not in_raw; continue
        if in_raw: continue
        if 'help:"' in line or s.startswith('"') or s.startswith('import') or s.startswith('package'): continue
        code=line.split('//')[0] if '"' not in line else line
        # strip string literals for matching positions
        def add(kind,newline):
            if newline!=line: out.append((path,i,kind,line,newline))
        for a,b in ROR:
            idxs=[m.start() for m in re.finditer(re.escape(a),code)]
            for k in idxs:
                # skip inside string literal (rough): count quotes before
                if code[:k].count('"')%2==1: continue
                if a in('<=','>=') and False: pass
                if a==' < ' and code[k:k+4]==' <- ': continue
                if a=='==' and k>0 and code[k-1] in '!<>=': continue
                if a=='!=' : pass
                add('ROR:'+a.strip()+'->'+b.strip(), code[:k]+b+code[k+len(a):])
        for a,b in [('&&','||'),('||','&&')]:
            for m in re.finditer(re.escape(a),code):
                k=m.start()
                if code[:k].count('"')%2==1: continue
                add('LCR:'+a, code[:k]+b+code[k+2:])
        for a,b in [(' + ',' - '),(' - ',' + ')]:
            for m in re.finditer(re.escape(a),code):
                k=m.start()
                if code[:k].count('"')%2==1: continue
                add('AOR:'+a.strip(), code[:k]+b+code[k+3:])
        for m in re.finditer(r'(?<![\w."])(\d+)(?![\w."])',code):
            k=m.start()
            if code[:k].count('"')%2==1: continue
            n=int(m.group(1))
            if n>10000: continue
            add('CONST:%d->%d'%(n,n+1), code[:k]+str(n+1)+code[m.end():])
        m=re.match(r'^(\s*)(?:\} else )?if (.+) \{\s*$',code)
        if m and ':=' not in m.group(2) and ';' not in m.group(2):
            pre=code[:code.index('if ')]
            add('NEG', pre+'if !('+m.group(2)+') {')
        # statement deletion: simple call/assign lines
        if re.match(r'^\s*[\w.\[\]\(\)\*&]+(\.[\w]+)*\(.*\)\s*$',code) and not s.startswith(('return','defer','go ','if','for','func','}',')')):
            add('DEL', re.match(r'^\s*',code).group(0)+'_ = 0')
        if re.match(r'^\s*[\w.\[\]]+ (=|\+=|-=) .+$',code) and ':=' not in code and not s.startswith(('return','var','const')):
            add('DELASSIGN', re.match(r'^\s*',code).group(0)+'_ = 0')
        if s=='continue': add('CONT->BREAK', code.replace('continue','break'))
        if s=='break': add('BREAK->CONT', code.replace('break','continue'))
    return out
allm=[]
for f in files: allm+=mutants_for(f)
print(len(files),'files',len(allm),'mutants',file=sys.stderr)
def run(idx_m):
    idx,(path,i,kind,old,new)=idx_m
    d='/tmp/mut/w%d'%(idx%12)
    # each worker dir reused sequentially per idx%12 -> need lock per dir; use separate dir per idx instead
    d='/tmp/mut/work/%d'%idx
    shutil.copytree(BASE,d)
    try:
        p=os.path.join(d,path)
        L=open(p).read().split('\n'); L[i]=new; open(p,'w').write('\n'.join(L))
        b=subprocess.run(['go','build','./...'],cwd=d,env=env,capture_output=True,text=True)
        if b.returncode!=0: return (path,i+1,kind,old.strip(),new.strip(),'NOBUILD')
        try:
            t=subprocess.run(['go','test','-count=1','-timeout','60s','./...'],cwd=d,env=env,capture_output=True,text=True,timeout=180)
        except subprocess.TimeoutExpired:
            return (path,i+1,kind,old.strip(),new.strip(),'TIMEOUT')
        return (path,i+1,kind,old.strip(),new.strip(),'SURVIVES' if t.returncode==0 else 'KILLED')
    finally:
        shutil.rmtree(d,ignore_errors=True)
os.makedirs('/tmp/mut/work',exist_ok=True)
res=[]
with ThreadPoolExecutor(max_workers=10) as ex:
    for r in ex.map(run, list(enumerate(allm))):
        res.append(r)
        if r[-1] in('SURVIVES','TIMEOUT'): print(json.dumps(r),flush=True)
import collections
c=collections.Counter(r[-1] for r in res)
print(dict(c),file=sys.stderr)
json.dump(res,open('/tmp/mut/auto-%s.json'%( '_'.join(only) if only else 'all').replace('/','_'),'w'),indent=0)
