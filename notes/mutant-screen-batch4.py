import subprocess, shutil, os, sys, json
BASE='/tmp/mut/base'
env=dict(os.environ, GOFLAGS='-mod=mod', GOPROXY='off')
env.pop('GOWORK',None)
M=[
("C12-report-sort-desc","klog/app/cli/report.go","records = service.Sort(records, true)","records = service.Sort(records, false)","P12(order)"),
("C12-report-now-before-filter","klog/app/cli/report.go","nErr := opt.ApplyNow(now, records...)\n\tif nErr != nil {\n\t\treturn nErr\n\t}\n\trecords = service.Sort(records, true)","records = service.Sort(records, true)","P12/now dropped"),
("C12-total-now-ignored","klog/app/cli/total.go","nErr := opt.ApplyNow(now, records...)\n\tif nErr != nil {\n\t\treturn nErr\n\t}","_ = opt.ApplyNow(now, records...)","P17-err/B3"),
("C12-today-total-of-all","klog/app/cli/today.go","otherTotal, otherShouldTotal, otherDiff := opt.evaluate(otherRecords)","otherTotal, otherShouldTotal, otherDiff := opt.evaluate(records)","P12-today"),
("C12-grand-should","klog/app/cli/report.go","grandShould := service.ShouldTotalSum(records...)","grandShould := service.ShouldTotalSum(records[1:]...)","P12-grand"),
("C12-row-should","klog/app/cli/report.go","should := service.ShouldTotalSum(rs...)\n\t\t\tdiff := service.Diff(should, total)","should := service.ShouldTotalSum(rs...)\n\t\t\tdiff := service.Diff(should, grandTotalOf(rs))","skip"),
("C12-print-entry-total","klog/app/cli/print.go","return &Prefix{l.Record.Entries()[l.EntryI].Duration(), true}","return &Prefix{l.Record.Entries()[0].Duration(), true}","P12-print"),
("C12-diff-flag","klog/app/cli/total.go","diff := service.Diff(should, total)","diff := service.Diff(total, should)","P02-diff(callsite)"),
("C12-monthagg-hash","klog/app/cli/report/month.go","return period.Hash(period.NewMonthFromDate(date).Hash())","return period.Hash(period.NewQuarterFromDate(date).Hash())","P12-hash(agg)"),
("C12-quarteragg","klog/app/cli/report/quarter.go","return period.Hash(period.NewQuarterFromDate(date).Hash())","return period.Hash(period.NewMonthFromDate(date).Hash())","P12-hash(agg)"),
("C20-should-mins","klog/parser/json/serialiser.go","ShouldTotalMins: should.InMinutes(),","ShouldTotalMins: total.InMinutes(),","P20-fields"),
("C20-entry-summary","klog/parser/json/serialiser.go","Summary:   parser.SummaryText(e.Summary()).ToString(),","Summary:   parser.SummaryText(e.Summary()[:1]).ToString(),","P20-fields"),
("C20-errors-file","klog/parser/json/serialiser.go","Length:  e.Length(),","Length:  e.Length() + e.Position()*0,","equiv"),
("C20-json-now-after-filter","klog/app/cli/json.go","nErr := opt.ApplyNow(now, records...)\n\tif nErr != nil {\n\t\treturn nErr\n\t}\n\trecords = opt.ApplyFilter(now, records)","records = opt.ApplyFilter(now, records)\n\tnErr := opt.ApplyNow(now, records...)\n\tif nErr != nil {\n\t\treturn nErr\n\t}","neutral?"),
("C20-escapehtml","klog/parser/json/serialiser.go","enc.SetEscapeHTML(false)\n\terr := enc.Encode(&envelop)","enc.SetEscapeHTML(true)\n\terr := enc.Encode(&envelop)","neutral-json"),
("C09-date-format-default","klog/app/text_serialiser.go","Format(d.ToString())","Format(d.ToStringWithFormat(klog.DefaultDateFormat()))","P09-tostring"),
("C09-time-format","klog/range.go","return tr.Start().ToString() + space + \"-\" + space + tr.End().ToString()","return tr.Start().ToString() + space + \"-\" + space + tr.End().ToStringWithFormat(tr.Start().Format())","none(value)"),
("C09-openrange-qm","klog/range.go","strings.Repeat(\"?\", 1+or.format.AdditionalPlaceholderChars)","strings.Repeat(\"?\", 1)","none(value)"),
("C09-forceplus","klog/duration.go","} else if d.format.ForcePlus {\n\t\tresult += \"+\"\n\t}","}","none(value)"),
("C09-zerosign","klog/duration.go","if amountOfHours == 0 && amountOfMinutes == 0 && match[1] != \"\" {","if amountOfHours == 0 && amountOfMinutes == 0 && match[1] == \"-\" {","none(value)"),
("C16-24fold-tomorrow","klog/time.go","if hour == 24 && minute == 00 && dayShift <= 0 {","if hour == 24 && minute == 00 && dayShift == 0 {","P16-affine(guard)"),
("C16-plus-eq-day","klog/time.go","} else if mins > ONE_DAY {","} else if mins >= ONE_DAY {","equiv(fold)"),
("C16-am12","klog/time.go","if t.hour == 0 {\n\t\t\treturn 12, \"am\"\n\t\t}","if t.hour == 0 {\n\t\t\treturn 0, \"am\"\n\t\t}","none(value)"),
("C16-date-year0","klog/date.go","if cd.Year < 0 || cd.Year > 9999 {","if cd.Year < 1 || cd.Year > 9999 {","none(value)"),
("C16-dur-minutes60","klog/duration.go","if match[3] != \"\" && amountOfMinutes >= 60 {","if match[3] != \"\" && amountOfMinutes > 60 {","none(value)"),
("C16-isequal","klog/time.go","return t.MidnightOffset().InMinutes() == otherTime.MidnightOffset().InMinutes()","return t.Hour() == otherTime.Hour() && t.Minute() == otherTime.Minute()","P16-order(cmp)"),
("C01-shouldtotal-trailing","klog/parser/parser.go","if headline.Peek() != ')' {\n\t\t\t\terrs = append(errs, ErrorUnrecognisedProperty().New(block, nr(lines), headline.PointerPosition, headline.RemainingLength()-1))\n\t\t\t\treturn r\n\t\t\t}","if headline.Peek() != ')' {\n\t\t\t\theadline.SkipWhile(func(r rune) bool { return r != ')' && r != 65533 })\n\t\t\t}","P01-kinds?"),
("C01-open-range-shifted","klog/parser/parser.go","for _, p := range placeholderRepetition.Chars {\n\t\t\t\t\tif p != '?' {","for _, p := range placeholderRepetition.Chars {\n\t\t\t\t\tif p != '?' && p != '>' {","none(value)"),
("C01-blank-in-record","klog/parser/txt/line.go","if c != ' ' && c != '\\t' {","if c != ' ' && c != '\\t' && c != '\\r' {","none(value)"),
("C10-position-should","klog/parser/parser.go","errs = append(errs, ErrorMalformedShouldTotal().New(block, nr(lines), headline.PointerPosition, shouldTotalText.Length()))","errs = append(errs, ErrorMalformedShouldTotal().New(block, nr(lines), headline.PointerPosition, shouldTotalText.Length()+40))","none(value)"),
("C10-linenumber-base","klog/parser/txt/error.go","return e.context.OverallLineIndex(e.line) + 1","return e.context.OverallLineIndex(e.line) + 1 + 0*e.position","equiv"),
("C14-quoted-value","klog/tag.go","if strings.HasPrefix(v, `'`) {\n\t\t\treturn strings.Trim(v, `'`)\n\t\t}","","none(value)"),
("C14-count-once","klog/service/tags.go","if alreadyCounted[tag] {\n\t\t\t\t\tcontinue\n\t\t\t\t}\n","","equiv"),
("C14-record-tags","klog/service/tags.go","allTags := klog.Merge(r.Summary().Tags(), e.Summary().Tags())","allTags := klog.Merge(e.Summary().Tags())","P14-merge"),
("C13-entrytype-pos","klog/service/query.go","} else if t == ENTRY_TYPE_POSITIVE_DURATION && e.Duration().InMinutes() >= 0 {","} else if t == ENTRY_TYPE_POSITIVE_DURATION && e.Duration().InMinutes() > 0 {","none(value)"),
("C13-period-until","klog/app/cli/util/args.go","qry.BeforeOrEqual = args.Period.Until()\n\t\tqry.AfterOrEqual = args.Period.Since()","qry.BeforeOrEqual = args.Period.Until()\n\t\tqry.AfterOrEqual = args.Period.Until()","P13-translate"),
("C13-tomorrow","klog/app/cli/util/args.go","qry.AtDate = today.PlusDays(+1)","qry.AtDate = today.PlusDays(+2)","P13-translate"),
("C04-create-should","klog/parser/reconciling/creator.go","if ad.ShouldTotal != nil {\n\t\t\t\tresult += \" (\" + ad.ShouldTotal.ToString() + \")\"\n\t\t\t}","if ad.ShouldTotal != nil && ad.ShouldTotal.InMinutes() > 0 {\n\t\t\t\tresult += \" (\" + ad.ShouldTotal.ToString() + \")\"\n\t\t\t}","none(value)"),
("C04-track-config-should","klog/app/cli/track.go","ctx.Config().DefaultShouldTotal.Unwrap(func(s klog.ShouldTotal) {\n\t\tadditionalData.ShouldTotal = s\n\t})","","P04(config)"),
("C04-resume-nth","klog/app/cli/util/args.go","return entriesCount + nr","return entriesCount + nr - 0","equiv"),
]
only=sys.argv[1:] 
res=[]
for (mid,f,old,new,rule) in M:
    if only and mid not in only: continue
    d='/tmp/mut/work'
    shutil.rmtree(d,ignore_errors=True)
    shutil.copytree(BASE,d)
    p=os.path.join(d,f)
    s=open(p).read()
    if s.count(old)!=1:
        res.append((mid,'NOAPPLY(%d)'%s.count(old),rule)); print(res[-1]); continue
    open(p,'w').write(s.replace(old,new))
    b=subprocess.run(['go','build','./...'],cwd=d,env=env,capture_output=True,text=True)
    if b.returncode!=0:
        # maybe unused import; show
        res.append((mid,'NOBUILD: '+b.stderr.strip().split('\n')[-1][:150],rule)); print(res[-1]); continue
    t=subprocess.run(['go','test','-count=1','./...'],cwd=d,env=env,capture_output=True,text=True)
    failed=[l for l in t.stdout.split('\n') if l.startswith('--- FAIL')]
    res.append((mid,'SURVIVES' if t.returncode==0 else 'KILLED by %d tests e.g. %s'%(len(failed), failed[0] if failed else '?'),rule)); print(res[-1])
shutil.rmtree('/tmp/mut/work',ignore_errors=True)
