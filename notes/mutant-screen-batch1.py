import subprocess, shutil, os, sys, json
BASE='/tmp/mut/base'
env=dict(os.environ, GOFLAGS='-mod=mod', GOPROXY='off')
env.pop('GOWORK',None)
M=[
# id, file, old, new, property/rule
("C01-ignore-range-err","klog/parser/parser.go","timeRange, rErr := klog.NewRangeWithFormat(start, end, klog.RangeFormat{UseSpacesAroundDash: hasRangeSpacesAroundDash})\n\t\t\tif rErr != nil {\n\t\t\t\treturn nil, ErrorIllegalRange().New(block, nr(lines), entryStartPosition, entry.PointerPosition-entryStartPosition)\n\t\t\t}","timeRange, _ := klog.NewRangeWithFormat(start, end, klog.RangeFormat{UseSpacesAroundDash: hasRangeSpacesAroundDash})","P01-errchecked"),
("C01-ignore-dup-openrange","klog/parser/parser.go","eErr := createEntry(entrySummary)\n\t\tif eErr != nil {\n\t\t\terrs = append(errs, eErr)\n\t\t}","_ = createEntry(entrySummary)","P01-errflow"),
("C01-mixed-sep","klog/date.go","if c := strings.Count(yyyymmdd, \"-\"); c == 1 {","if c := strings.Count(yyyymmdd, \"-\"); c == 7 {","none(value)"),
("C01-headline-trailing","klog/parser/parser.go","if headline.RemainingLength() > 0 {","if headline.RemainingLength() > 1 {","none(value)"),
("C02-open-range-counts","klog/entry.go","func(o OpenRange) Duration { return NewDuration(0, 0) },","func(o OpenRange) Duration { return NewDuration(0, 1) },","P02-arms"),
("C02-total-skip-neg","klog/service/evaluate.go","total = total.Plus(e.Duration())","if e.Duration().InMinutes() > -100000 {\n\t\t\t\ttotal = total.Plus(e.Duration())\n\t\t\t}","P02-fold"),
("C02-midnight-yesterday","klog/time.go","return NewDuration(-23+t.Hour(), -60+t.Minute())","return NewDuration(-24+t.Hour(), t.Minute())","equiv(no violation)"),
("C02-midnight-tomorrow","klog/time.go","return NewDuration(24+t.Hour(), t.Minute())","return NewDuration(23+t.Hour(), t.Minute())","P02-affine"),
("C03-lineending-uncond","klog/parser/reconciling/reconciler.go","if lineIndex > 0 && result[lineIndex-1].LineEnding == \"\" {","if lineIndex > 0 {","P03-lineending"),
("C05-continue-on-step-err","klog/app/context.go","err := r(reconciler)\n\t\tif err != nil {\n\t\t\treturn nil, NewErrorWithCode(\n\t\t\t\tLOGICAL_ERROR,\n\t\t\t\t\"Manipulation failed\",\n\t\t\t\terr.Error(),\n\t\t\t\terr,\n\t\t\t)\n\t\t}","err := r(reconciler)\n\t\tif err != nil {\n\t\t\tcontinue\n\t\t}","P05-apply-abort"),
("C05-makeresult-noguard","klog/parser/reconciling/reconciler.go","if errs != nil {\n\t\treturn nil, errors.New(\"This operation wouldn’t result in a valid record\")\n\t}","if errs != nil && len(newRecords) == 0 && r.recordPointer < 0 {\n\t\treturn nil, errors.New(\"This operation wouldn’t result in a valid record\")\n\t}","P05-makeresult-guard"),
("C05-write-before-apply","klog/app/context.go","result, aErr := ApplyReconciler(records, blocks, creators, reconcile...)\n\tif aErr != nil {\n\t\treturn nil, aErr\n\t}\n\twErr := WriteToFile(target, result.AllSerialised)","result, aErr := ApplyReconciler(records, blocks, creators, reconcile...)\n\tif aErr != nil {\n\t\tWriteToFile(target, target.Contents())\n\t\treturn nil, aErr\n\t}\n\twErr := WriteToFile(target, result.AllSerialised)","P05-guarded-write"),
("C05-exit-zero","klog/app/main/cli.go","return appError.Code().ToInt(), util.PrettifyAppError(appError, config.IsDebug.Value())","return 0, util.PrettifyAppError(appError, config.IsDebug.Value())","P05-exit"),
("C07-arrival-order","klog/parser/engine/parallel.go","allResults := make([]batchResult[T], len(batches))\n\tfor result := range resultChannel {\n\t\tallResults[result.index] = result\n\t}","allResults := make([]batchResult[T], 0, len(batches))\n\tfor result := range resultChannel {\n\t\tallResults = append(allResults, result)\n\t}","P07-index-order"),
("C07-no-renumber","klog/parser/engine/parallel.go","b.SetPrecedingLineCount(lineCount)\n","","P07-renumber"),
("C07-done-before-send","klog/parser/engine/parallel.go","defer wg.Done()\n\t\t\tresult := work(batchIndex, batchText)\n\t\t\tresultChannel <- result","result := work(batchIndex, batchText)\n\t\t\twg.Done()\n\t\t\tresultChannel <- result","P07-hb"),
("C07-drop-mid-errs","klog/parser/engine/parallel.go","allErrs = append(allErrs, flatten(result.errs)...)\n","","P07-errmerge"),
("C07-no-runestart","klog/parser/engine/parallel.go","for nextPointer < len(txt) && !utf8.RuneStart(txt[nextPointer]) {\n\t\t\tnextPointer++\n\t\t}","_ = utf8.RuneStart","none(by design)"),
("C08-totallines","klog/parser/engine/serial.go","totalLines += len(block.Lines())","totalLines += len(block.Lines()) - 0*totalLines","equiv"),
("C08-makeresult-text","klog/parser/reconciling/reconciler.go","text += l.Original()","text += l.Text + \"\\n\"","P03-result"),
("C09-indent5","klog/parser/serialiser.go","var canonicalIndentation = \"    \"","var canonicalIndentation = \"  \"","P09-tables"),
("C10-nr-after","klog/parser/parser.go","if headline.RemainingLength() > 0 {\n\t\t\terrs = append(errs, ErrorUnrecognisedTextInHeadline().New(block, nr(lines), headline.PointerPosition, headline.RemainingLength()))","if headline.RemainingLength() > 0 {\n\t\t\terrs = append(errs, ErrorUnrecognisedTextInHeadline().New(block, nr(lines[1:]), headline.PointerPosition, headline.RemainingLength()))","P10-epoch?"),
("C11-const-newline","klog/parser/reconciling/reconciler.go","line += texts[offset].text + r.style.lineEnding.Get()","line += texts[offset].text + \"\\n\"","P11-style-src"),
("C11-const-indent","klog/parser/reconciling/reconciler.go","line := strings.Repeat(r.style.indentation.Get(), texts[offset].indentation)","line := strings.Repeat(\"    \", texts[offset].indentation)","P11-style-src"),
("C11-elect-ignores-explicit","klog/parser/reconciling/style.go","if defaultStyle.isExplicit {\n\t\treturn defaultStyle\n\t}","if defaultStyle.isExplicit && len(e.votes) == 0 {\n\t\treturn defaultStyle\n\t}","P11-precedence"),
("C12-weekhash-year","klog/service/period/week.go","year, week := w.date.WeekNumber()\n\thash.populate(uint32(week), 53)","_, week := w.date.WeekNumber()\n\tyear := w.date.Year()\n\thash.populate(uint32(week), 53)","P12-hash"),
("C12-weekhash-cap","klog/service/period/week.go","hash.populate(uint32(week), 53)","hash.populate(uint32(week), 12)","P12-hash"),
("C12-today-drop-yesterday","klog/app/cli/today.go","return todaysRecords, append(otherRecords, yesterdaysRecords...), false","return todaysRecords, otherRecords, false","P12-today"),
("C13-after-inclusive","klog/app/cli/util/args.go","qry.AfterOrEqual = args.After.PlusDays(1)","qry.AfterOrEqual = args.After","P13-translate"),
("C13-lastmonth-this","klog/app/cli/util/args.go","return period.NewMonthFromDate(today).Previous().Period()","return period.NewMonthFromDate(today).Period()","P13-translate"),
("C13-lastquarter-this","klog/app/cli/util/args.go","return period.NewQuarterFromDate(today).Previous().Period()","return period.NewQuarterFromDate(today).Period()","P13-translate"),
("C13-sort-inplace","klog/service/query.go","sorted := append([]klog.Record(nil), rs...)","sorted := rs","P13-sortcopy"),
("C14-tag-class","klog/tag.go","var HashTagPattern = regexp.MustCompile(`#([\\p{L}\\d_-]+)","var HashTagPattern = regexp.MustCompile(`#([\\p{L}\\d_]+)","P14-lang"),
("C14-no-barename","klog/tag.go","ts.lookup[NewTagOrPanic(tag.Name(), \"\")] = true\n","","P14-barename"),
("C14-no-lower","klog/tag.go","return Tag{strings.ToLower(name), value}","return Tag{name, value}","P14-lower"),
("C15-week-rollover","klog/service/period/week.go","if _, refWeekNr := reference.WeekNumber(); refWeekNr != week {","if _, refWeekNr := reference.WeekNumber(); refWeekNr != week && week < 53 {","P15-guards"),
("C15-quarter-range","klog/service/period/quarter.go","if quarter < 1 || quarter > 4 {","if quarter < 1 || quarter > 5 {","P15-guards"),
("C16-time-hours2","klog/time.go","`^(<)?(\\d{1,2}):(\\d{2})(am|pm)?(>)?$`","`^(<)?(\\d{2}):(\\d{2})(am|pm)?(>)?$`","P16-lex"),
("C16-plus-bound","klog/time.go","if mins >= 2*ONE_DAY || mins < ONE_DAY*-1 {","if mins >= 2*ONE_DAY || mins <= ONE_DAY*-1 {","P16-affine"),
("C16-range-strict","klog/range.go","if !end.IsAfterOrEqual(start) {","if !end.IsAfterOrEqual(start) || end.IsEqualTo(start) {","P16-order"),
("C17-swap-shift","klog/app/cli/util/args.go","shiftedTime, _ := time.Plus(klog.NewDuration(-24, 0))","shiftedTime, _ := time.Plus(klog.NewDuration(24, 0))","P17-shift-table"),
("C17-stop-order","klog/app/cli/stop.go","reconciling.NewReconcilerAtRecord(date),\n\t\t\tfunc() reconciling.Creator {\n\t\t\t\tif shouldTryYesterday {\n\t\t\t\t\treturn reconciling.NewReconcilerAtRecord(yesterday)\n\t\t\t\t}\n\t\t\t\treturn nil\n\t\t\t}(),","func() reconciling.Creator {\n\t\t\t\tif shouldTryYesterday {\n\t\t\t\t\treturn reconciling.NewReconcilerAtRecord(yesterday)\n\t\t\t\t}\n\t\t\t\treturn nil\n\t\t\t}(),\n\t\t\treconciling.NewReconcilerAtRecord(date),","P17-stop-fallback"),
("C17-close-daybefore","klog/service/record.go","return end.Plus(klog.NewDuration(24, 0))","return end.Plus(klog.NewDuration(23, 60))","equiv"),
("C18-width-bytes","klog/app/cli/terminalformat/table.go","len:     utf8.RuneCountInString(StripAllAnsiSequences(text)),","len:     len(StripAllAnsiSequences(text)),","P18-width"),
("C18-width-styled","klog/app/cli/terminalformat/table.go","len:     utf8.RuneCountInString(StripAllAnsiSequences(text)),","len:     utf8.RuneCountInString(text),","P18-width"),
("C18-sgr-bad","klog/app/cli/terminalformat/colour_theme.go","underlined:       \"\\033[4m\",\n\t\tbold:             \"\\033[1m\",\n\t}\n}\n\nfunc newStyler8bit","underlined:       \"\\033[4m\",\n\t\tbold:             \"\\033[1 m\",\n\t}\n}\n\nfunc newStyler8bit","P18-sgr"),
("C19-unsorted","klog/app/bookmark.go","sort.Slice(sortedBookmarks, func(i, j int) bool {\n\t\treturn sortedBookmarks[i].Name() < sortedBookmarks[j].Name()\n\t})","_ = sort.Slice","P19-sorted"),
("C19-write-on-fail","klog/app/context.go","mErr := manipulate(bc)\n\tif mErr != nil {\n\t\treturn mErr\n\t}\n\tiErr := ctx.initialiseKlogFolder()\n\tif iErr != nil {\n\t\treturn iErr\n\t}\n\treturn WriteToFile(ctx.bookmarkDatabasePath(), bc.ToJson())","mErr := manipulate(bc)\n\tiErr := ctx.initialiseKlogFolder()\n\tif iErr != nil {\n\t\treturn iErr\n\t}\n\twErr := WriteToFile(ctx.bookmarkDatabasePath(), bc.ToJson())\n\tif mErr != nil {\n\t\treturn mErr\n\t}\n\treturn wErr","P19-rmw"),
("C20-nil-records","klog/parser/json/serialiser.go","result := []RecordView{}","var result []RecordView","P20-xor"),
("C20-startmins-end","klog/parser/json/serialiser.go","StartMins: r.Start().MidnightOffset().InMinutes(),","StartMins: r.End().MidnightOffset().InMinutes(),","P20-fields"),
("C20-diff-swapped","klog/parser/json/serialiser.go","diff := service.Diff(should, total)","diff := service.Diff(total, should)","P20-fields"),
("C06-panic-in-parse","klog/parser/parser.go","if allPropsText.Length() == 0 {","if allPropsText.Length() > 40 {\n\t\t\t\tpanic(\"should-total too long\")\n\t\t\t}\n\t\t\tif allPropsText.Length() == 0 {","P06-panics"),
("C04-switch-other-time","klog/app/cli/switch.go","return reconciler.StartOpenRange(time, opt.TimeFormat(ctx.Config()), summary)","t2, _ := klog.NewTime(time.Hour(), time.Minute())\n\t\t\treturn reconciler.StartOpenRange(t2, opt.TimeFormat(ctx.Config()), summary)","P04-steps"),
("C04-stop-creates","klog/app/cli/stop.go","reconciling.NewReconcilerAtRecord(date),\n\t\t\tfunc()","reconciling.NewReconcilerAtRecord(date),\n\t\t\treconciling.NewReconcilerForNewRecord(date, opt.DateFormat(ctx.Config()), reconciling.AdditionalData{}),\n\t\t\tfunc()","P04-creators"),
]
only=sys.argv[1:] 
res=[]
for (mid,f,old,new,rule) in M:
    if only and mid not in only: continue
    d='/tmp/mut/work'
    shutil.rmtree(d,ignore_errors=True)
    shutil.copytree(BASE,d)
    p=os.path.join(d,f)
    s=open(p).read()
    if s.count(old)!=1:
        res.append((mid,'NOAPPLY(%d)'%s.count(old),rule)); print(res[-1]); continue
    open(p,'w').write(s.replace(old,new))
    b=subprocess.run(['go','build','./...'],cwd=d,env=env,capture_output=True,text=True)
    if b.returncode!=0:
        # maybe unused import; show
        res.append((mid,'NOBUILD: '+b.stderr.strip().split('\n')[-1][:150],rule)); print(res[-1]); continue
    t=subprocess.run(['go','test','-count=1','./...'],cwd=d,env=env,capture_output=True,text=True)
    failed=[l for l in t.stdout.split('\n') if l.startswith('--- FAIL')]
    res.append((mid,'SURVIVES' if t.returncode==0 else 'KILLED by %d tests e.g. %s'%(len(failed), failed[0] if failed else '?'),rule)); print(res[-1])
shutil.rmtree('/tmp/mut/work',ignore_errors=True)
