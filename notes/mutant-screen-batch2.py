import subprocess, shutil, os, sys, json
BASE='/tmp/mut/base'
env=dict(os.environ, GOFLAGS='-mod=mod', GOPROXY='off')
env.pop('GOWORK',None)
M=[
("C18-width-bytes","klog/app/cli/terminalformat/table.go","len:     utf8.RuneCountInString(StripAllAnsiSequences(text)),","len:     len(StripAllAnsiSequences(text)) + 0*utf8.RuneCountInString(text),","P18-width"),
("C04-switch-other-time","klog/app/cli/switch.go","return reconciler.StartOpenRange(time, opt.TimeFormat(ctx.Config()), summary)","t2, _ := time.Plus(time.MidnightOffset().Minus(time.MidnightOffset()))\n\t\t\treturn reconciler.StartOpenRange(t2, opt.TimeFormat(ctx.Config()), summary)","P04-steps(equiv-ish)"),
("C03-close-rewrite-line","klog/parser/reconciling/close_open_range.go","r.lines[openRangeValueLineIndex].Text = regexp.MustCompile(`^(.*?)\\?+(.*)$`).\n\t\tReplaceAllString(\n\t\t\tr.lines[openRangeValueLineIndex].Text,\n\t\t\t\"${1}\"+endTimeValue+\"${2}\",\n\t\t)","r.lines[openRangeValueLineIndex].Text = regexp.MustCompile(`^(.*?)\\?+(.*)$`).\n\t\tReplaceAllString(\n\t\t\tr.lines[openRangeValueLineIndex].Text,\n\t\t\t\"${1}\"+endTimeValue,\n\t\t)","P03-linewrites"),
("C03-insert-trim","klog/parser/reconciling/reconciler.go","result[i] = r.lines[i-offset]","result[i] = r.lines[i-offset]\n\t\t\tresult[i].Text = strings.TrimRight(result[i].Text, \" \")","P03-insert"),
("C03-write-canonical","klog/app/context.go","wErr := WriteToFile(target, result.AllSerialised)","wErr := WriteToFile(target, parser.SerialiseRecords(ctx.serialiser, result.AllRecords...).ToString())","P03-write-arg"),
("C05-pause-ignore-err","klog/app/cli/util/reconcile.go","result, err := ctx.ReconcileFile(opts.OutputFileArgs.File, creators, reconcile...)\n\tif err != nil {\n\t\treturn err\n\t}","result, err := ctx.ReconcileFile(opts.OutputFileArgs.File, creators, reconcile...)\n\tif err != nil && result == nil && len(creators) > 100 {\n\t\treturn err\n\t}\n\tif err != nil {\n\t\treturn nil\n\t}","P05-propagate"),
("C05-parse-errs-ignored","klog/app/context.go","if errs != nil {\n\t\treturn nil, NewParserErrors(errs)\n\t}\n\tresult, aErr","if errs != nil && len(records) == 0 {\n\t\treturn nil, NewParserErrors(errs)\n\t}\n\tresult, aErr","equiv(records nil when errs)"),
("C07-errs-order","klog/parser/engine/parallel.go","allErrs = append(allErrs, flatten(carryErrs)...)\n\t\t\t}\n\t\t\tcarryText = \"\"","allErrs = append(flatten(carryErrs), allErrs...)\n\t\t\t}\n\t\t\tcarryText = \"\"","P10-order"),
("C07-engine-threshold","klog/app/context.go","if cfg.CpuKernels.Value() > 1 {","if cfg.CpuKernels.Value() > 0 {","equiv-ish"),
("C10-summary-loop-nr","klog/parser/parser.go","newSummary, sErr := klog.NewRecordSummary(append(record.Summary(), summary.ToString())...)\n\t\tif sErr != nil {\n\t\t\terrs = append(errs, ErrorMalformedSummary().New(block, nr(lines), 0, summary.Length()))\n\t\t}\n\t\tlines = lines[1:]","newSummary, sErr := klog.NewRecordSummary(append(record.Summary(), summary.ToString())...)\n\t\tlines = lines[1:]\n\t\tif sErr != nil {\n\t\t\terrs = append(errs, ErrorMalformedSummary().New(block, nr(lines), 0, summary.Length()))\n\t\t}","P10-epoch"),
("C10-indent-nr","klog/parser/parser.go","errs = append(errs, ErrorIllegalIndentation().New(block, nr(lines), 0, len(l.Text)))\n\t\t\tbreak","errs = append(errs, ErrorIllegalIndentation().New(block, nr(lines)-1, 0, len(l.Text)))\n\t\t\tbreak","P10-linearg"),
("C10-json-column","klog/parser/json/serialiser.go","Column:  e.Column(),","Column:  e.Position(),","P10-accessors"),
("C10-dup-openrange-nr","klog/parser/parser.go","lineNr := nr(lines) // Capture state of `line` at time of function creation.\n\t\t\t\treturn func(s klog.EntrySummary) txt.Error {","return func(s klog.EntrySummary) txt.Error {\n\t\t\t\t\tlineNr := nr(lines)","P10-epoch"),
("C11-timeformat-ignore-config","klog/app/cli/util/args.go","config.TimeUse24HourClock.Unwrap(func(x bool) {\n\t\tfd = reconciling.ReformatExplicitly(klog.TimeFormat{Use24HourClock: x})\n\t})","config.TimeUse24HourClock.Unwrap(func(x bool) {\n\t\tfd = reconciling.ReformatExplicitly(klog.TimeFormat{Use24HourClock: true})\n\t})","P11-precedence"),
("C11-default-indent","klog/parser/reconciling/style.go","indentation:                         styleProp[string]{\"    \", false},","indentation:                         styleProp[string]{\"  \", false},","P11-defaults"),
("C11-lineending-from-last","klog/parser/reconciling/style.go","if len(b.Lines()) > 0 && b.Lines()[0].LineEnding != \"\" {\n\t\ts.lineEnding.Set(b.Lines()[0].LineEnding)","if len(b.Lines()) > 0 && b.Lines()[len(b.Lines())-1].LineEnding != \"\" {\n\t\ts.lineEnding.Set(b.Lines()[len(b.Lines())-1].LineEnding)","none"),
("C12-dayhash-cap","klog/service/period/day.go","hash.populate(uint32(d.date.Day()), 31)","hash.populate(uint32(d.date.Day()), 15)","P12-hash(equiv? 15->5 bits)"),
("C12-monthhash-cap","klog/service/period/month.go","hash.populate(uint32(m.date.Month()), 12)","hash.populate(uint32(m.date.Month()), 7)","P12-hash"),
("C13-yesterday-today","klog/app/cli/util/args.go","qry.AtDate = today.PlusDays(-1)","qry.AtDate = today.PlusDays(-2)","P13-translate"),
("C13-before-inclusive","klog/app/cli/util/args.go","qry.BeforeOrEqual = args.Before.PlusDays(-1)","qry.BeforeOrEqual = args.Before","P13-translate"),
("C13-until-exclusive","klog/service/query.go","if o.BeforeOrEqual != nil && !o.BeforeOrEqual.IsAfterOrEqual(r.Date()) {","if o.BeforeOrEqual != nil && r.Date().IsAfterOrEqual(o.BeforeOrEqual) {","P13-clauses"),
("C13-thisweek-prev","klog/app/cli/util/args.go","return period.NewWeekFromDate(today).Period()","return period.NewWeekFromDate(today).Previous().Period()","P13-translate"),
("C09-blank-between","klog/parser/serialiser.go","if i < len(rs)-1 {","if i < len(rs)-2 {","P09-tables"),
("C09-shouldtotal-neg","klog/parser/serialiser.go","if r.ShouldTotal().InMinutes() != 0 {","if r.ShouldTotal().InMinutes() > 0 {","P09-complete"),
("C09-second-indent","klog/parser/serialiser.go","lines = append(lines, Line{canonicalIndentation + canonicalIndentation + summaryText, r, entryI})","lines = append(lines, Line{canonicalIndentation + \"  \" + summaryText, r, entryI})","P09-tables"),
("C19-remove-all","klog/app/bookmark.go","delete(bc.bookmarks, n)\n\treturn true","bc.bookmarks = make(map[Name]Bookmark)\n\treturn true","P19-remove"),
("C19-unset-noerr","klog/app/cli/bookmarks.go","hasRemoved := bc.Remove(name)\n\t\tif !hasRemoved {","hasRemoved := bc.Remove(name)\n\t\tif !hasRemoved && bc.Count() < 0 {","P19-rmw?"),
("C19-default-name","klog/app/bookmark.go","if value == \"\" {\n\t\tvalue = BOOKMARK_DEFAULT_NAME\n\t}","if value == \"\" {\n\t\tvalue = \"main\"\n\t}","P19-names"),
("C20-errors-empty-records","klog/parser/json/serialiser.go","Records: nil,\n\t\t\t\tErrors:  toErrorViews(errs),","Records: []RecordView{},\n\t\t\t\tErrors:  toErrorViews(errs),","P20-xor"),
("C17-round-after-shift","klog/service/rounding.go","if remainder >= (v/2 + v%2) {","if remainder > (v/2 + v%2) {","none(value)"),
("C17-attime-today-only","klog/app/cli/util/args.go","} else if today.PlusDays(1).IsEqualTo(date) {\n\t\tshiftedTime, _ := time.Plus(klog.NewDuration(-24, 0))\n\t\treturn shiftedTime, nil\n\t}","}","P17-shift-table"),
("C17-closeopen-anyday","klog/service/record.go","if r.Date().IsEqualTo(theDayBefore) {","if !r.Date().IsAfterOrEqual(thisDay) {","P02-close"),
("C06-atoi-time","klog/time.go","hour, _ := strconv.Atoi(match[2])","hour, hErr := strconv.Atoi(match[2])\n\tif hErr != nil {\n\t\tpanic(hErr)\n\t}","P06-errpanic(unreachable-equiv)"),
("C16-range-duration-swapped","klog/range.go","return NewDuration(0, end-start)","return NewDuration(0, start-end)","P02-affine"),
("C16-12am","klog/time.go","if match[4] == \"am\" && hour == 12 {","if match[4] == \"am\" && hour >= 12 {","equiv"),
]
only=sys.argv[1:] 
res=[]
for (mid,f,old,new,rule) in M:
    if only and mid not in only: continue
    d='/tmp/mut/work'
    shutil.rmtree(d,ignore_errors=True)
    shutil.copytree(BASE,d)
    p=os.path.join(d,f)
    s=open(p).read()
    if s.count(old)!=1:
        res.append((mid,'NOAPPLY(%d)'%s.count(old),rule)); print(res[-1]); continue
    open(p,'w').write(s.replace(old,new))
    b=subprocess.run(['go','build','./...'],cwd=d,env=env,capture_output=True,text=True)
    if b.returncode!=0:
        # maybe unused import; show
        res.append((mid,'NOBUILD: '+b.stderr.strip().split('\n')[-1][:150],rule)); print(res[-1]); continue
    t=subprocess.run(['go','test','-count=1','./...'],cwd=d,env=env,capture_output=True,text=True)
    failed=[l for l in t.stdout.split('\n') if l.startswith('--- FAIL')]
    res.append((mid,'SURVIVES' if t.returncode==0 else 'KILLED by %d tests e.g. %s'%(len(failed), failed[0] if failed else '?'),rule)); print(res[-1])
shutil.rmtree('/tmp/mut/work',ignore_errors=True)
